package idl

// Deep copy of a program (used by C09 to derive an older version of a program
// by deleting parts of the copy).  Nothing here touches the original.

// CloneMap says which copy stands for which original.
type CloneMap struct {
	Files map[*File]*File
	Defs  map[*Def]*Def
}

// Clone returns a deep copy of p: no node of the copy is shared with p, and
// every reference inside the copy (type references, constant references, enum
// member references, includes, service bases) points at the copied target.
func Clone(p *Program) (*Program, *CloneMap) {
	m := &CloneMap{Files: map[*File]*File{}, Defs: map[*Def]*Def{}}
	q := &Program{}
	// shells first, so that references can be remapped in one pass
	for _, f := range p.Files {
		nf := &File{Index: f.Index, Path: f.Path}
		m.Files[f] = nf
		q.Files = append(q.Files, nf)
		for _, d := range f.Defs {
			nd := &Def{Kind: d.Kind, Name: d.Name, File: nf, Comment: d.Comment}
			m.Defs[d] = nd
			nf.Defs = append(nf.Defs, nd)
		}
	}
	for _, f := range p.Files {
		nf := m.Files[f]
		for _, inc := range f.Includes {
			nf.Includes = append(nf.Includes, m.Files[inc])
		}
		nf.IncludeLit = append([]string(nil), f.IncludeLit...)
		nf.CppIncludes = append([]string(nil), f.CppIncludes...)
		for _, ns := range f.Namespaces {
			nf.Namespaces = append(nf.Namespaces, Namespace{Lang: ns.Lang, Name: ns.Name, Annos: cloneAnnos(ns.Annos)})
		}
		for _, d := range f.Defs {
			nd := m.Defs[d]
			nd.Annos = cloneAnnos(d.Annos)
			nd.Type = m.cloneType(d.Type)
			nd.Value = m.cloneValue(d.Value)
			for _, ev := range d.Values {
				c := *ev
				c.Annos = cloneAnnos(ev.Annos)
				nd.Values = append(nd.Values, &c)
			}
			nd.Fields = m.cloneFields(d.Fields)
			if d.Extends != nil {
				nd.Extends = m.def(d.Extends)
			}
			for _, fn := range d.Funcs {
				nfn := &Func{Name: fn.Name, Oneway: fn.Oneway, Ret: m.cloneType(fn.Ret), Args: m.cloneFields(fn.Args),
					Throws: m.cloneFields(fn.Throws), HasThrows: fn.HasThrows, Annos: cloneAnnos(fn.Annos)}
				nd.Funcs = append(nd.Funcs, nfn)
			}
		}
	}
	return q, m
}

// def maps a definition of the original to its copy (a definition that is not
// part of the cloned program is kept as it is).
func (m *CloneMap) def(d *Def) *Def {
	if d == nil {
		return nil
	}
	if n, ok := m.Defs[d]; ok {
		return n
	}
	return d
}

func cloneAnnos(as []Anno) []Anno {
	if as == nil {
		return nil
	}
	out := make([]Anno, len(as)) // an empty, non-nil list stays non-nil ("()" is written)
	for i, a := range as {
		out[i] = Anno{Key: a.Key, Val: cloneLit(a.Val)}
	}
	return out
}

func cloneLit(l Lit) Lit {
	return Lit{Toks: append([]LitTok(nil), l.Toks...), Quote: l.Quote}
}

func (m *CloneMap) cloneType(t *Type) *Type {
	if t == nil {
		return nil
	}
	return &Type{Base: t.Base, Key: m.cloneType(t.Key), Elem: m.cloneType(t.Elem), Ref: m.def(t.Ref),
		CppType: t.CppType, HasCpp: t.HasCpp, Annos: cloneAnnos(t.Annos)}
}

func (m *CloneMap) cloneValue(v *Value) *Value {
	if v == nil {
		return nil
	}
	c := *v
	c.Lit = cloneLit(v.Lit)
	c.RefConst = m.def(v.RefConst)
	c.RefEnum = m.def(v.RefEnum)
	c.Via = m.def(v.Via)
	if v.List != nil {
		c.List = make([]*Value, len(v.List))
		for i, e := range v.List {
			c.List[i] = m.cloneValue(e)
		}
	}
	if v.Keys != nil {
		c.Keys = make([]*Value, len(v.Keys))
		for i, e := range v.Keys {
			c.Keys[i] = m.cloneValue(e)
		}
	}
	return &c
}

func (m *CloneMap) cloneFields(fs []*Field) []*Field {
	var out []*Field
	for _, f := range fs {
		c := *f
		c.Type = m.cloneType(f.Type)
		c.Default = m.cloneValue(f.Default)
		c.Annos = cloneAnnos(f.Annos)
		out = append(out, &c)
	}
	return out
}

// Mentions collects what the written constant values of a program name: the
// fields of struct-likes that occur as keys of struct literals and the enum
// members that are named (by identifier or by number) where an enum value is
// expected.  A field or member that is mentioned cannot be deleted without
// also editing a constant or a default.
type Mentions struct {
	Fields  map[*Field]bool
	Members map[*EnumVal]bool
	// Instantiated holds the struct-likes some struct literal builds a value
	// of.  Such a literal fixes every field of the value: the ones it names
	// and, as absent, all others.
	Instantiated map[*Def]bool
}

// CollectMentions walks every constant and every declared default (struct
// fields, function arguments and throws lists) of the program.
func CollectMentions(p *Program) *Mentions {
	ms := &Mentions{Fields: map[*Field]bool{}, Members: map[*EnumVal]bool{}, Instantiated: map[*Def]bool{}}
	for _, f := range p.Files {
		for _, d := range f.Defs {
			if d.Kind == KConst {
				ms.walk(d.Type, d.Value)
			}
			for _, fl := range d.Fields {
				ms.walk(fl.Type, fl.Default)
			}
			for _, fn := range d.Funcs {
				for _, fl := range fn.Args {
					ms.walk(fl.Type, fl.Default)
				}
				for _, fl := range fn.Throws {
					ms.walk(fl.Type, fl.Default)
				}
			}
		}
	}
	return ms
}

func (ms *Mentions) walk(t *Type, v *Value) {
	if t == nil || v == nil {
		return
	}
	if v.Kind == VIdent && v.RefConst != nil {
		return // the constant itself is walked where it is defined
	}
	if v.Kind == VIdent && v.RefEnum != nil {
		// an enum member named by the value, whatever the declared type (an
		// integer may be written as an enum member)
		for _, ev := range v.RefEnum.Values {
			if ev.Name == v.RefVal {
				ms.Members[ev] = true
			}
		}
	}
	ft := t.Final()
	switch {
	case ft.Ref != nil && ft.Ref.Kind == KEnum:
		for _, ev := range ft.Ref.Values {
			if (v.Kind == VInt && v.Int == ev.Value) || (v.Kind == VIdent && v.RefVal == ev.Name) {
				ms.Members[ev] = true
			}
		}
		if v.Kind == VIdent && v.RefEnum != nil {
			for _, ev := range v.RefEnum.Values {
				if ev.Name == v.RefVal {
					ms.Members[ev] = true
				}
			}
		}
	case ft.Ref != nil && ft.Ref.Kind.IsStructLike():
		if v.Kind != VMap {
			return
		}
		ms.Instantiated[ft.Ref] = true
		for i, k := range v.Keys {
			if k.Kind != VLit {
				continue
			}
			name := k.Lit.Text()
			for _, fl := range ft.Ref.Fields {
				if fl.Name == name {
					ms.Fields[fl] = true
					if i < len(v.List) {
						ms.walk(fl.Type, v.List[i])
					}
				}
			}
		}
	case ft.Base == "list" || ft.Base == "set":
		for _, e := range v.List {
			ms.walk(ft.Elem, e)
		}
	case ft.Base == "map":
		for i, e := range v.List {
			if i < len(v.Keys) {
				ms.walk(ft.Key, v.Keys[i])
			}
			ms.walk(ft.Elem, e)
		}
	}
}
