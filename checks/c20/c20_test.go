// C20 — every documented backend option switches exactly its own feature.
//
// Sources of truth, compared with each other first (TestDocs): the README
// option table (name, documented default, documented value sets), the `-h`
// text (in-process GoBackend.Options and, when a binary is available, the text
// the binary prints) and the exported golang.Features struct whose field tags
// are the option names.  The oracle of every other test is a fold over the
// *documented* option list: defaults from the README, each assignment
// overrides its own setting, the last assignment of an option wins.
//
// Oracle decisions (all taken from README.md of the repository under test):
//   - "Boolean options accept true, false, or empty"            => anything else is an error.
//   - naming_style: "golint, apache, or thriftgo"               => anything else is an error.
//   - template: "slim or raw_struct"                            => anything else is an error
//     (`template=default` is accepted by the code but not documented: never generated).
//   - use_package "Form: path=replacement"                      => no '=' is an error.
//   - gen_deep_equal "Silently disabled when template=slim"     => final template slim forces it off.
//   - enable_nested_struct "thriftgo automatically switches to slim if this option is set and no
//     template is specified" => asserted on the tool's path (args.Arguments.Targets, mode "targets");
//     on the bare CodeUtils.HandleOptions path (mode "cu") template and gen_deep_equal are not
//     asserted for such lists because the README promises this of the tool, not of the library call.
//   - apache_warning + apache_adaptor "These are mutually exclusive" => error.
//   - NOT asserted either way (README ambiguous or silent, the code rejects or warns):
//     with_field_mask without with_reflection (table: "requires", troubleshooting: "no effect"),
//     streamx without thrift_streaming (same wording), snake_style_json_tag together with
//     lower_camel_style_json_tag (README silent, code rejects), always_gen_json_tag (deprecated,
//     absent from the README) with gen_json_tag=false (code rejects).  For these the judge accepts
//     an error, and when there is none the resulting settings must still equal the fold.
//   - A combination that is invalid only in an intermediate state of the list (e.g.
//     apache_warning,apache_adaptor,apache_warning=false) is not asserted either way: the README
//     does not say when combinations are validated.
//   - Unknown option names are outside the property and never generated.
package c20

import (
	"bytes"
	"encoding/json"
	"fmt"
	"hash/fnv"
	"io"
	"log"
	"os"
	"os/exec"
	"path/filepath"
	"reflect"
	"regexp"
	"sort"
	"strings"
	"sync"
	"testing"
	"time"

	"github.com/cloudwego/thriftgo/args"
	"github.com/cloudwego/thriftgo/generator/backend"
	"github.com/cloudwego/thriftgo/generator/golang"
	"github.com/cloudwego/thriftgo/generator/golang/styles"
	"github.com/cloudwego/thriftgo/plugin"
	"pgregory.net/rapid"

	"verif/internal/vt"
)

const prop = "C20"

// finding: any naming_style assignment (even the documented default
// `naming_style=thriftgo`) also switches initialism correction off, i.e. acts
// like ignore_initialisms, unless an ignore_initialisms assignment is present.
const findNaming = "naming-style-disables-initialisms"

func TestMain(m *testing.M) {
	log.SetOutput(io.Discard) // args.checkOptions warns through the std logger
	vt.Main(m)
}

func repoDir() string {
	if d := os.Getenv("VERIF_REPO_DIR"); d != "" {
		return d
	}
	return vt.Repo()
}

// ---------- the documented option list ----------

const (
	kBool     = "bool"
	kNaming   = "naming_style"
	kTemplate = "template"
	kUsePkg   = "use_package"
	kVerbatim = "verbatim"
)

type optDoc struct {
	Name       string
	Kind       string
	Default    string   // documented default ("true"/"false" for booleans)
	Values     []string // documented value set (naming_style, template)
	InReadme   bool
	InHelp     bool
	Deprecated bool   // -h says so
	HelpDesc   string // -h description
	HelpOn     bool   // -h says "(Enabled by default)"
}

type docModel struct {
	opts   []*optDoc
	byName map[string]*optDoc
}

var (
	rowRe   = regexp.MustCompile("^\\|\\s*`([^`]+)`\\s*\\|([^|]*)\\|(.*)\\|\\s*$")
	tickRe  = regexp.MustCompile("`([^`]+)`")
	quoteRe = regexp.MustCompile(`'([A-Za-z0-9_]+)'`)
)

// readReadme parses the "Go backend options" table.
func readReadme() ([]*optDoc, error) {
	b, err := os.ReadFile(filepath.Join(repoDir(), "README.md"))
	if err != nil {
		return nil, err
	}
	var out []*optDoc
	in := false
	for _, ln := range strings.Split(string(b), "\n") {
		if strings.HasPrefix(ln, "#") {
			in = strings.Contains(ln, "Go backend options")
			continue
		}
		if !in {
			continue
		}
		m := rowRe.FindStringSubmatch(ln)
		if m == nil {
			continue
		}
		cell, def, desc := m[1], strings.TrimSpace(m[2]), m[3]
		d := &optDoc{InReadme: true}
		if i := strings.Index(cell, "="); i >= 0 {
			d.Name = cell[:i]
			switch d.Name {
			case "naming_style":
				d.Kind = kNaming
			case "template":
				d.Kind = kTemplate
			case "use_package":
				d.Kind = kUsePkg
			default:
				d.Kind = kVerbatim
			}
		} else {
			d.Name, d.Kind = cell, kBool
		}
		def = strings.Trim(def, "*` ")
		switch d.Kind {
		case kBool:
			if def != "true" && def != "false" {
				return nil, fmt.Errorf("README: boolean option %s has default %q", d.Name, def)
			}
			d.Default = def
		case kNaming:
			d.Default = def
		}
		if d.Kind == kNaming || d.Kind == kTemplate {
			for _, t := range tickRe.FindAllStringSubmatch(desc, -1) {
				d.Values = append(d.Values, t[1])
			}
		}
		out = append(out, d)
	}
	if len(out) < 10 {
		return nil, fmt.Errorf("README option table not found (%d rows)", len(out))
	}
	return out, nil
}

type helpOpt struct{ Name, Desc string }

func helpInProcess() []helpOpt {
	var hs []helpOpt
	for _, o := range new(golang.GoBackend).Options() {
		hs = append(hs, helpOpt{o.Name, o.Desc})
	}
	return hs
}

var helpLineRe = regexp.MustCompile(`^    ([A-Za-z0-9_]+):\s+(.*)$`)

func helpFromBinary(bin string) ([]helpOpt, error) {
	cmd := exec.Command(bin, "-h")
	var buf bytes.Buffer
	cmd.Stdout, cmd.Stderr = &buf, &buf
	cmd.Run()
	var hs []helpOpt
	in := false
	for _, ln := range strings.Split(buf.String(), "\n") {
		if strings.HasPrefix(strings.TrimSpace(ln), "go (") && strings.HasSuffix(strings.TrimSpace(ln), "):") {
			in = true
			continue
		}
		if !in {
			continue
		}
		if m := helpLineRe.FindStringSubmatch(ln); m != nil {
			hs = append(hs, helpOpt{m[1], strings.TrimSpace(m[2])})
		}
	}
	if len(hs) == 0 {
		return nil, fmt.Errorf("no backend options in `-h` output:\n%s", vt.Truncate(buf.String(), 800))
	}
	return hs, nil
}

var (
	modelOnce sync.Once
	model     *docModel
	modelErr  error
)

// docs builds the documented option list: README rows first, then options
// only `-h` lists (today the deprecated always_gen_json_tag).
func docs() (*docModel, error) {
	modelOnce.Do(func() {
		rs, err := readReadme()
		if err != nil {
			modelErr = err
			return
		}
		m := &docModel{byName: map[string]*optDoc{}}
		for _, r := range rs {
			if m.byName[r.Name] != nil {
				modelErr = fmt.Errorf("README lists %s twice", r.Name)
				return
			}
			m.byName[r.Name] = r
			m.opts = append(m.opts, r)
		}
		for _, h := range helpInProcess() {
			d := m.byName[h.Name]
			if d == nil {
				d = &optDoc{Name: h.Name, Kind: kBool, Default: "false"}
				m.byName[h.Name] = d
				m.opts = append(m.opts, d)
			}
			d.InHelp = true
			d.HelpDesc = h.Desc
			d.HelpOn = strings.Contains(h.Desc, "(Enabled by default)")
			d.Deprecated = strings.Contains(strings.ToLower(h.Desc), "deprecated")
			if !d.InReadme && d.HelpOn {
				d.Default = "true"
			}
		}
		model = m
	})
	return model, modelErr
}

func mustDocs(t vt.TB) *docModel {
	m, err := docs()
	if err != nil {
		t.Fatalf("harness: cannot read the documentation: %v", err)
	}
	return m
}

func (m *docModel) defaults() map[string]string {
	s := map[string]string{}
	for _, d := range m.opts {
		switch d.Kind {
		case kBool:
			s[d.Name] = d.Default
		case kNaming:
			s[d.Name] = d.Default
		case kTemplate:
			s[d.Name] = ""
		case kVerbatim:
			s[d.Name] = ""
		}
	}
	return s
}

// prefixRelated reports whether one of two distinct option names is a prefix of the other.
func prefixRelated(a, b string) bool {
	return a != b && (strings.HasPrefix(a, b) || strings.HasPrefix(b, a))
}

// ---------- cases, oracle, judge ----------

type optCase struct {
	Mode    string            `json:"mode"`     // "cu": CodeUtils.HandleOptions; "targets": args.Arguments.Targets + Pack + HandleOptions
	Opts    []string          `json:"opts"`     // the option list, in order
	WantErr string            `json:"want_err"` // "yes", "no", "either"
	Want    map[string]string `json:"want"`     // option name -> expected setting (when no error)
}

func splitOpt(a string) (name, value string) {
	p := strings.SplitN(a, "=", 2)
	if len(p) == 2 {
		return p[0], p[1]
	}
	return p[0], ""
}

func contains(xs []string, x string) bool {
	for _, y := range xs {
		if x == y {
			return true
		}
	}
	return false
}

// expect is the oracle: a fold of the documented meaning of each assignment.
func (m *docModel) expect(mode string, opts []string) optCase {
	c := optCase{Mode: mode, Opts: opts, WantErr: "no"}
	s := m.defaults()
	invalid := false
	transient := false
	sawTemplate, sawNaming, sawIgnore := false, false, false
	on := func(k string) bool { return s[k] == "true" }
	has := func(k string) bool { _, ok := s[k]; return ok }
	exclusive := func() bool { return has("apache_warning") && on("apache_warning") && on("apache_adaptor") }
	unspecified := func() bool {
		return (on("with_field_mask") && !on("with_reflection")) ||
			(on("streamx") && !on("thrift_streaming")) ||
			(on("snake_style_json_tag") && on("lower_camel_style_json_tag")) ||
			(on("always_gen_json_tag") && has("gen_json_tag") && !on("gen_json_tag"))
	}
	for _, a := range opts {
		name, val := splitOpt(a)
		d := m.byName[name]
		if d == nil {
			panic("generator produced an undocumented option: " + a)
		}
		switch d.Kind {
		case kBool:
			switch val {
			case "", "true":
				s[name] = "true"
			case "false":
				s[name] = "false"
			default:
				invalid = true
			}
			if name == "ignore_initialisms" {
				sawIgnore = true
			}
		case kNaming:
			if contains(d.Values, val) {
				s[name] = val
				sawNaming = true
			} else {
				invalid = true
			}
		case kTemplate:
			if contains(d.Values, val) {
				s[name] = val
				sawTemplate = true
			} else {
				invalid = true
			}
		case kUsePkg:
			p := strings.SplitN(val, "=", 2)
			if len(p) == 2 {
				s["use_package:"+p[0]] = p[1]
			} else {
				invalid = true
			}
		case kVerbatim:
			s[name] = val
		}
		if invalid {
			break
		}
		if exclusive() || unspecified() {
			transient = true
		}
	}
	switch {
	case invalid || exclusive():
		c.WantErr = "yes"
		return c
	case unspecified() || transient:
		c.WantErr = "either"
	}
	nested := on("enable_nested_struct")
	if nested && !sawTemplate {
		if mode == "targets" {
			s["template"] = "slim" // "automatically switches to slim if ... no template is specified"
		} else {
			delete(s, "template") // promised of the tool, not of the library call
			delete(s, "gen_deep_equal")
		}
	}
	if s["template"] == "slim" && has("gen_deep_equal") {
		s["gen_deep_equal"] = "false" // "Silently disabled when template=slim"
	}
	if sawNaming && !sawIgnore && vt.Known(prop, findNaming) {
		delete(s, "ignore_initialisms")
		vt.Excluded(findNaming)
	}
	c.Want = s
	return c
}

// observe reads every setting the options control back from a CodeUtils.
func observe(cu *golang.CodeUtils) (map[string]string, error) {
	s := map[string]string{}
	fs := cu.Features()
	t, v := reflect.TypeOf(fs), reflect.ValueOf(fs)
	for i := 0; i < t.NumField(); i++ {
		tag := strings.SplitN(string(t.Field(i).Tag), ":", 2)[0]
		if v.Field(i).Kind() != reflect.Bool {
			return nil, fmt.Errorf("harness: Features.%s is not a bool", t.Field(i).Name)
		}
		if _, dup := s[tag]; dup {
			return nil, fmt.Errorf("two Features fields carry the option name %q", tag)
		}
		s[tag] = fmt.Sprint(v.Field(i).Bool())
	}
	ns := cu.NamingStyle()
	s["naming_style"] = ns.Name()
	id, err := ns.Identify("user_url")
	switch {
	case err != nil:
		return nil, fmt.Errorf("harness: Identify probe failed: %v", err)
	case id == "UserURL":
		s["ignore_initialisms"] = "false"
	case id == "UserUrl":
		s["ignore_initialisms"] = "true"
	default:
		return nil, fmt.Errorf("harness: Identify probe returned %q", id)
	}
	if tp := cu.Template(); tp == "default" {
		s["template"] = "" // util.go: "Empty for the default"
	} else {
		s["template"] = tp
	}
	s["package_prefix"] = cu.GetPackagePrefix()
	s["thrift_import_path"] = ""
	// import replacements have no exported getter; reading (not writing) an
	// unexported map through reflect is allowed
	ir := reflect.ValueOf(cu).Elem().FieldByName("importReplace")
	if !ir.IsValid() || ir.Kind() != reflect.Map {
		s["!no_import_replace"] = ""
		return s, nil
	}
	it := ir.MapRange()
	for it.Next() {
		k, val := it.Key().String(), it.Value().String()
		if k == golang.DefaultThriftLib {
			s["thrift_import_path"] = val
		} else {
			s["use_package:"+k] = val
		}
	}
	return s, nil
}

// freshStyles puts the process-global naming style singletons back into the
// state they have in a fresh process (what every run of the tool sees).
func freshStyles() {
	for _, n := range styles.NamingStyles() {
		styles.NewNamingStyle(n).UseInitialisms(true)
	}
}

func apply(mode string, opts []string) (cu *golang.CodeUtils, err error, pan interface{}) {
	defer func() {
		if r := recover(); r != nil {
			pan = r
		}
	}()
	freshStyles()
	params := opts
	if mode == "targets" {
		a := &args.Arguments{Langs: args.StringSlice{"go:" + strings.Join(opts, ",")}}
		specs, terr := a.Targets()
		if terr != nil {
			return nil, terr, nil
		}
		if len(specs) != 1 {
			return nil, fmt.Errorf("Targets returned %d specs", len(specs)), nil
		}
		params = plugin.Pack(specs[0].Options) // generator.Generate does the same
		freshStyles()                          // checkOptions ran a throw-away CodeUtils on the shared singletons
	}
	cu = golang.NewCodeUtils(backend.DummyLogFunc())
	err = cu.HandleOptions(params)
	return cu, err, nil
}

func judgeOptions(c optCase) error {
	cu, err, pan := apply(c.Mode, c.Opts)
	if pan != nil {
		return fmt.Errorf("options %q (%s): panic: %v", c.Opts, c.Mode, pan)
	}
	if err != nil {
		if c.WantErr == "no" {
			return fmt.Errorf("options %q (%s): every option is documented as valid here but the list is rejected: %v", c.Opts, c.Mode, err)
		}
		return nil
	}
	if c.WantErr == "yes" {
		return fmt.Errorf("options %q (%s): documented as invalid but accepted without error", c.Opts, c.Mode)
	}
	got, oerr := observe(cu)
	if oerr != nil {
		return oerr
	}
	_, blind := got["!no_import_replace"]
	delete(got, "!no_import_replace")
	var diffs []string
	for k, w := range c.Want {
		if blind && (k == "thrift_import_path" || strings.HasPrefix(k, "use_package:")) {
			continue
		}
		g, ok := got[k]
		if !ok {
			diffs = append(diffs, fmt.Sprintf("%s: expected %q, setting absent", k, w))
		} else if g != w {
			diffs = append(diffs, fmt.Sprintf("%s: expected %q, got %q", k, w, g))
		}
	}
	for k, g := range got {
		if _, ok := c.Want[k]; ok || (blind && k == "thrift_import_path") {
			continue
		}
		switch {
		case strings.HasPrefix(k, "use_package:"):
			diffs = append(diffs, fmt.Sprintf("%s: unexpected replacement %q", k, g))
		case !wantOmits(k):
			diffs = append(diffs, fmt.Sprintf("%s: setting %q of an option that is not documented", k, g))
		}
	}
	if len(diffs) > 0 {
		sort.Strings(diffs)
		return fmt.Errorf("options %q (%s): settings differ from the documented defaults overridden by each assignment in order:\n  %s", c.Opts, c.Mode, strings.Join(diffs, "\n  "))
	}
	return nil
}

// wantOmits: keys the oracle deliberately leaves unasserted.
func wantOmits(k string) bool {
	switch k {
	case "template", "gen_deep_equal", "ignore_initialisms":
		return true
	}
	return false
}

// ---------- documentation cross-check ----------

type docsCase struct {
	UseBinary bool `json:"use_binary"`
}

func judgeDocs(c docsCase) error {
	m, err := docs()
	if err != nil {
		return fmt.Errorf("harness: %v", err)
	}
	var bad []string
	add := func(f string, a ...interface{}) { bad = append(bad, fmt.Sprintf(f, a...)) }
	if c.UseBinary {
		bin, berr := thriftgoBin()
		if berr != nil {
			return nil // harness trouble is reported by the binary test, not as a violation
		}
		hb, herr := helpFromBinary(bin)
		if herr != nil {
			return herr
		}
		hp := helpInProcess()
		if !reflect.DeepEqual(hb, hp) {
			names := func(hs []helpOpt) (ns []string) {
				for _, h := range hs {
					ns = append(ns, h.Name)
				}
				return
			}
			add("`thriftgo -h` of the built binary lists other options/descriptions than GoBackend.Options of the same tree: %v vs %v", names(hb), names(hp))
		}
	}
	// names: README <-> -h
	for _, d := range m.opts {
		switch {
		case d.InReadme && !d.InHelp:
			add("README option %s is not listed by -h", d.Name)
		case d.InHelp && !d.InReadme && !d.Deprecated:
			add("-h option %s is not in the README table (and not marked deprecated)", d.Name)
		}
	}
	// -h names are unique (the order of the table is an implementation detail
	// and not asserted here: shadowing shows in behaviour, see TestExhaustive)
	seen := map[string]bool{}
	for _, h := range helpInProcess() {
		if seen[h.Name] {
			add("-h lists %s twice", h.Name)
		}
		seen[h.Name] = true
	}
	// Features tags <-> -h, defaults
	freshStyles()
	cu := golang.NewCodeUtils(backend.DummyLogFunc())
	got, oerr := observe(cu)
	if oerr != nil {
		return oerr
	}
	fs := cu.Features()
	t := reflect.TypeOf(fs)
	for i := 0; i < t.NumField(); i++ {
		tag := strings.SplitN(string(t.Field(i).Tag), ":", 2)[0]
		d := m.byName[tag]
		if d == nil || !d.InHelp {
			add("Features.%s (option %s) is not listed by -h", t.Field(i).Name, tag)
			continue
		}
		if d.Kind != kBool {
			add("option %s is a boolean feature but documented with a value", tag)
		}
	}
	for _, d := range m.opts {
		switch d.Kind {
		case kBool:
			g, ok := got[d.Name]
			if !ok {
				add("boolean option %s is documented but is no Features field", d.Name)
				continue
			}
			if d.InReadme && g != d.Default {
				add("option %s: README default %s, actual default %s", d.Name, d.Default, g)
			}
			if d.InHelp && (g == "true") != d.HelpOn {
				add("option %s: -h says enabled-by-default=%v, actual default %s", d.Name, d.HelpOn, g)
			}
		case kNaming:
			if got[d.Name] != d.Default {
				add("naming_style: README default %q, actual %q", d.Default, got[d.Name])
			}
			a, b := append([]string{}, d.Values...), styles.NamingStyles()
			sort.Strings(a)
			sort.Strings(b)
			if !reflect.DeepEqual(a, b) {
				add("naming_style: README lists %v, the code supports %v", a, b)
			}
		case kTemplate:
			if got[d.Name] != "" {
				add("template: no documented default, actual %q", got[d.Name])
			}
			var hv []string
			for _, q := range quoteRe.FindAllStringSubmatch(d.HelpDesc, -1) {
				hv = append(hv, q[1])
			}
			a := append([]string{}, d.Values...)
			sort.Strings(a)
			sort.Strings(hv)
			if !reflect.DeepEqual(a, hv) {
				add("template: README lists %v, -h lists %v", a, hv)
			}
		case kVerbatim:
			if got[d.Name] != "" {
				add("%s: no documented default, actual %q", d.Name, got[d.Name])
			}
		}
	}
	if len(bad) > 0 {
		return fmt.Errorf("README, -h and golang.Features disagree:\n  %s", strings.Join(bad, "\n  "))
	}
	return nil
}

func TestDocs(t *testing.T) {
	mustDocs(t)
	c := docsCase{UseBinary: true}
	vt.Eval()
	vt.Class("docs_crosscheck")
	if err := judgeDocs(c); err != nil {
		if strings.HasPrefix(err.Error(), "harness:") {
			t.Fatalf("%v", err)
		}
		vt.Fail(t, prop, "docs", c, "%v", err)
	}
}

// ---------- assignments ----------

const (
	pkgFrom, pkgTo = "database/sql/driver", "example.com/my/driver"
	importPath     = "example.com/x/thrift"
	pkgPrefix      = "example.com/gen"
)

var garbage = []string{"maybe", "1", "TRUE", "no"}

// valid returns every documented assignment form of an option.
func valid(d *optDoc) []string {
	switch d.Kind {
	case kBool:
		return []string{d.Name, d.Name + "=true", d.Name + "=false"}
	case kNaming, kTemplate:
		var r []string
		for _, v := range d.Values {
			r = append(r, d.Name+"="+v)
		}
		return r
	case kUsePkg:
		return []string{d.Name + "=" + pkgFrom + "=" + pkgTo}
	default:
		if d.Name == "thrift_import_path" {
			return []string{d.Name + "=" + importPath}
		}
		return []string{d.Name + "=" + pkgPrefix}
	}
}

// rejected returns assignment forms the documentation excludes.
func rejected(d *optDoc) []string {
	switch d.Kind {
	case kBool:
		var r []string
		for _, g := range garbage {
			r = append(r, d.Name+"="+g)
		}
		return r
	case kNaming:
		return []string{d.Name + "=bogus", d.Name, d.Name + "=Golint"}
	case kTemplate:
		return []string{d.Name + "=bogus", d.Name, d.Name + "=Slim"}
	case kUsePkg:
		return []string{d.Name + "=nopath", d.Name}
	}
	return nil
}

func classify(opts []string) (prefix, twice bool) {
	for i := range opts {
		ni, vi := splitOpt(opts[i])
		for j := i + 1; j < len(opts); j++ {
			nj, vj := splitOpt(opts[j])
			if prefixRelated(ni, nj) {
				prefix = true
			}
			if ni == nj && vi != vj && !(boolish(vi) && boolish(vj) && (vi == "false") == (vj == "false")) {
				twice = true
			}
		}
	}
	return
}

func boolish(v string) bool { return v == "" || v == "true" || v == "false" }

func count(c optCase, kind string) {
	vt.Eval()
	vt.Class(kind)
	vt.Class("mode:" + c.Mode)
	vt.ClassIf(c.WantErr == "yes", "rejected_values")
	vt.ClassIf(c.WantErr == "either", "not_asserted_either_way")
	p, tw := classify(c.Opts)
	vt.ClassIf(p, "prefix_pair")
	vt.ClassIf(tw, "same_option_twice")
	if p || tw {
		vt.Nontrivial(c.Mode + ":" + strings.Join(c.Opts, ","))
	}
}

var modes = []string{"cu", "targets"}

// TestExhaustive: every option in every form alone, then all ordered pairs.
func TestExhaustive(t *testing.T) {
	m := mustDocs(t)
	run := func(kind string, opts []string) {
		for _, mode := range modes {
			c := m.expect(mode, opts)
			count(c, kind)
			if err := judgeOptions(c); err != nil {
				vt.Fail(t, prop, "options", c, "%v", err)
			}
		}
	}
	var pool, bad []string
	for _, d := range m.opts {
		pool = append(pool, valid(d)...)
		if r := rejected(d); len(r) > 0 {
			bad = append(bad, r[0])
		}
	}
	// the empty list: documented defaults
	run("single_option", nil)
	for _, d := range m.opts {
		for _, a := range valid(d) {
			run("single_option", []string{a})
		}
		for _, a := range rejected(d) {
			run("single_option", []string{a})
		}
	}
	all := append(append([]string{}, pool...), bad...)
	n := 0
	for _, a := range all {
		for _, b := range all {
			run("pair", []string{a, b})
			n++
		}
	}
	vt.Sample(map[string]interface{}{"test": "exhaustive", "options": len(m.opts), "assignments": len(all), "ordered_pairs": n})
	// triples around every prefix-related pair of names: both orders, every
	// value combination, with an unrelated option before, between and after
	for _, x := range m.opts {
		for _, y := range m.opts {
			if !(x.Name < y.Name && prefixRelated(x.Name, y.Name)) {
				continue
			}
			for _, a := range valid(x) {
				for _, b := range valid(y) {
					for _, z := range []string{"gen_setter", "validate_set=false"} {
						if m.byName[strings.SplitN(z, "=", 2)[0]] == nil {
							continue
						}
						for _, l := range [][]string{{z, a, b}, {a, z, b}, {a, b, z}, {z, b, a}, {b, z, a}, {b, a, z}, {a, b, a}, {b, a, b}} {
							run("prefix_triple", l)
						}
					}
				}
			}
		}
	}
}

// ---------- random lists ----------

// interacting: pairs of options the README documents an interaction for.
var interacting = [][2]string{
	{"template", "gen_deep_equal"}, {"template", "enable_nested_struct"}, {"apache_warning", "apache_adaptor"},
	{"enable_nested_struct", "gen_deep_equal"}, {"naming_style", "ignore_initialisms"},
}

func genList(rt *rapid.T, m *docModel) []string {
	n := rapid.IntRange(3, 12).Draw(rt, "n")
	var names []string
	for _, d := range m.opts {
		names = append(names, d.Name)
	}
	var related [][2]string
	for _, a := range names {
		for _, b := range names {
			if a < b && prefixRelated(a, b) {
				related = append(related, [2]string{a, b})
			}
		}
	}
	var opts []string
	// about one list in five carries one rejected value (decided per list:
	// rapid's integer draws favour the bounds, a per-assignment coin would
	// make most lists invalid)
	badAt := -1
	if rapid.IntRange(0, 99).Draw(rt, "invalid") >= 80 {
		badAt = rapid.IntRange(0, n-1).Draw(rt, "bad_at")
	}
	pick := func(name string) string {
		d := m.byName[name]
		if rs := rejected(d); len(rs) > 0 && len(opts) == badAt {
			return rapid.SampledFrom(rs).Draw(rt, "bad")
		}
		return rapid.SampledFrom(valid(d)).Draw(rt, "form")
	}
	for len(opts) < n {
		switch k := rapid.IntRange(0, 9).Draw(rt, "kind"); {
		case k == 0 && len(related) > 0: // both names of a prefix-related pair
			p := rapid.SampledFrom(related).Draw(rt, "related")
			if rapid.Bool().Draw(rt, "swap") {
				p[0], p[1] = p[1], p[0]
			}
			opts = append(opts, pick(p[0]), pick(p[1]))
		case k == 3: // options the README relates to each other
			g := rapid.SampledFrom(interacting).Draw(rt, "group")
			if m.byName[g[0]] == nil || m.byName[g[1]] == nil {
				continue
			}
			if rapid.Bool().Draw(rt, "swap") {
				g[0], g[1] = g[1], g[0]
			}
			opts = append(opts, pick(g[0]), pick(g[1]))
		case k <= 2 && len(opts) > 0: // an option already in the list, again
			prev, _ := splitOpt(rapid.SampledFrom(opts).Draw(rt, "again"))
			opts = append(opts, pick(prev))
		default:
			opts = append(opts, pick(rapid.SampledFrom(names).Draw(rt, "name")))
		}
	}
	return opts[:n]
}

func TestRandomLists(t *testing.T) {
	m := mustDocs(t)
	rapid.Check(t, func(rt *rapid.T) {
		opts := genList(rt, m)
		mode := rapid.SampledFrom(modes).Draw(rt, "mode")
		c := m.expect(mode, opts)
		count(c, "random_list")
		vt.Sample(map[string]interface{}{"test": "random", "mode": mode, "opts": opts, "want_err": c.WantErr})
		if err := judgeOptions(c); err != nil {
			vt.Fail(rt, prop, "options", c, "%v", err)
		}
	})
}

// ---------- through the binary ----------

var (
	binOnce sync.Once
	binPath string
	binErr  error
)

func thriftgoBin() (string, error) {
	binOnce.Do(func() {
		if p := os.Getenv("VERIF_THRIFTGO"); p != "" {
			binPath = p
			return
		}
		// stand-alone run (no harness): build into $TMPDIR at a fixed name per
		// source tree, rebuilt (incrementally) every time so it is never stale
		h := fnv.New32a()
		h.Write([]byte(repoDir()))
		dir := filepath.Join(os.TempDir(), fmt.Sprintf("c20-thriftgo-%08x", h.Sum32()))
		if err := os.MkdirAll(dir, 0o755); err != nil {
			binErr = err
			return
		}
		binPath = filepath.Join(dir, "thriftgo")
		cmd := exec.Command("go", "build", "-o", binPath, ".")
		cmd.Dir = repoDir()
		cmd.Env = append(os.Environ(), "GOFLAGS=-mod=readonly", "GOPROXY=off", "GOSUMDB=off", "GOTOOLCHAIN=local")
		if out, err := cmd.CombinedOutput(); err != nil {
			binErr = fmt.Errorf("go build in %s: %v\n%s", repoDir(), err, vt.Truncate(string(out), 1500))
		}
	})
	return binPath, binErr
}

type binCase struct {
	Opts     []string `json:"opts"`
	WantFail bool     `json:"want_fail"`          // documented as invalid => non-zero exit status
	Contains string   `json:"contains,omitempty"` // text the generated file must contain (valid lists only)
}

const binIDL = "namespace go c20t\n\nenum E { A = 1 }\n\nstruct S {\n  1: string user_url\n  2: optional E e\n}\n"

const binWatchdog = 60 * time.Second

func judgeBinary(c binCase) error {
	bin, err := thriftgoBin()
	if err != nil {
		return fmt.Errorf("harness: %v", err)
	}
	dir, err := os.MkdirTemp("", "c20run")
	if err != nil {
		return fmt.Errorf("harness: %v", err)
	}
	defer os.RemoveAll(dir)
	if err := os.WriteFile(filepath.Join(dir, "t.thrift"), []byte(binIDL), 0o644); err != nil {
		return fmt.Errorf("harness: %v", err)
	}
	g := "go"
	if len(c.Opts) > 0 {
		g += ":" + strings.Join(c.Opts, ",")
	}
	cmd := exec.Command(bin, "-g", g, "-o", filepath.Join(dir, "out"), "t.thrift")
	cmd.Dir = dir
	var buf bytes.Buffer
	cmd.Stdout, cmd.Stderr = &buf, &buf
	if err := cmd.Start(); err != nil {
		return fmt.Errorf("harness: %v", err)
	}
	done := make(chan error, 1)
	go func() { done <- cmd.Wait() }()
	var werr error
	select {
	case werr = <-done:
	case <-time.After(binWatchdog):
		cmd.Process.Kill()
		<-done
		return fmt.Errorf("harness: thriftgo -g %s did not finish within %v", g, binWatchdog)
	}
	if werr != nil {
		if _, ok := werr.(*exec.ExitError); !ok {
			return fmt.Errorf("harness: %v", werr)
		}
	}
	failed := werr != nil
	out := vt.Truncate(buf.String(), 600)
	if c.WantFail && !failed {
		return fmt.Errorf("thriftgo -g %s: the option list is documented as invalid but the exit status is 0\n%s", g, out)
	}
	if !c.WantFail && failed {
		// a failure behind option handling (code generation, formatting) is
		// other properties' business: only a list the option handling itself
		// rejects counts here
		if _, aerr, pan := apply("targets", c.Opts); aerr == nil && pan == nil {
			return nil
		}
		return fmt.Errorf("thriftgo -g %s: every option is documented as valid but thriftgo failed: %v\n%s", g, werr, out)
	}
	if !failed && c.Contains != "" {
		b, rerr := os.ReadFile(filepath.Join(dir, "out", "c20t", "t.go"))
		if rerr != nil {
			return fmt.Errorf("thriftgo -g %s: exit status 0 but no generated file: %v", g, rerr)
		}
		if !strings.Contains(string(b), c.Contains) {
			return fmt.Errorf("thriftgo -g %s: generated file does not contain %q", g, c.Contains)
		}
	}
	return nil
}

// binSafe: options whose documented meaning is self-contained for the tiny
// IDL (the code_ref family needs an idl-ref.yaml, streaming output is not
// generated from this IDL anyway, skip_go_gen/no_fmt/trim_idl change what is
// written; none of them is needed to decide accept/reject).
func binSafe(m *docModel) []string {
	skip := map[string]bool{"code_ref": true, "code_ref_slim": true, "exp_code_ref": true, "keep_code_ref_name": true,
		"skip_go_gen": true, "trim_idl": true, "skip_empty": true, "use_package": true, "thrift_import_path": true,
		"naming_style": true, "ignore_initialisms": true}
	var r []string
	for _, d := range m.opts {
		if !skip[d.Name] {
			r = append(r, d.Name)
		}
	}
	return r
}

func TestBinary(t *testing.T) {
	m := mustDocs(t)
	if _, err := thriftgoBin(); err != nil {
		t.Fatalf("harness: %v", err)
	}
	safe := binSafe(m)
	var rej []string
	for _, d := range m.opts {
		rej = append(rej, rejected(d)...)
	}
	// bounded by count: each run costs a process (~50 ms); whatever
	// -rapid.checks says, at most binCap cases start the binary (shrinking a
	// failure is not capped)
	binCap := 300
	if vt.Thorough() {
		binCap = 3000
	}
	runs, failing := 0, false
	rapid.Check(t, func(rt *rapid.T) {
		if runs >= binCap && !failing {
			return
		}
		runs++
		var c binCase
		switch k := rapid.IntRange(0, 9).Draw(rt, "kind"); {
		case k <= 5: // an invalid value somewhere in an otherwise valid list
			n := rapid.IntRange(0, 3).Draw(rt, "n")
			for i := 0; i < n; i++ {
				c.Opts = append(c.Opts, rapid.SampledFrom(valid(m.byName[rapid.SampledFrom(safe).Draw(rt, "name")])).Draw(rt, "form"))
			}
			pos := rapid.IntRange(0, len(c.Opts)).Draw(rt, "pos")
			bad := rapid.SampledFrom(rej).Draw(rt, "bad")
			c.Opts = append(c.Opts[:pos:pos], append([]string{bad}, c.Opts[pos:]...)...)
			c.WantFail = true
		case k == 6 && m.byName["apache_warning"] != nil && m.byName["apache_adaptor"] != nil: // documented exclusive pair
			c.Opts = []string{"apache_warning", "apache_adaptor"}
			if rapid.Bool().Draw(rt, "swap") {
				c.Opts[0], c.Opts[1] = c.Opts[1], c.Opts[0]
			}
			c.WantFail = true
		case k == 7: // verbatim values reach the generated code
			if rapid.Bool().Draw(rt, "which") {
				c = binCase{Opts: []string{"thrift_import_path=" + importPath}, Contains: `"` + importPath + `"`}
			} else {
				c = binCase{Opts: []string{"use_package=" + pkgFrom + "=" + pkgTo}, Contains: `"` + pkgTo + `"`}
			}
		default: // a valid list is accepted
			n := rapid.IntRange(0, 4).Draw(rt, "n")
			for i := 0; i < n; i++ {
				c.Opts = append(c.Opts, rapid.SampledFrom(valid(m.byName[rapid.SampledFrom(safe).Draw(rt, "name")])).Draw(rt, "form"))
			}
			e := m.expect("targets", c.Opts)
			if e.WantErr != "no" {
				c.WantFail = e.WantErr == "yes"
				if e.WantErr == "either" {
					c.Opts = nil
				}
			}
		}
		vt.Eval()
		vt.Class("binary_run")
		vt.ClassIf(c.WantFail, "binary_rejected_values")
		if p, tw := classify(c.Opts); p || tw {
			vt.Nontrivial("bin:" + strings.Join(c.Opts, ","))
		}
		vt.Sample(map[string]interface{}{"test": "binary", "opts": c.Opts, "want_fail": c.WantFail})
		if err := judgeBinary(c); err != nil {
			if strings.HasPrefix(err.Error(), "harness:") {
				rt.Fatalf("%v", err)
			}
			failing = true
			vt.Fail(rt, prop, "binary", c, "%v", err)
		}
	})
}

// ---------- replay ----------

func TestReplay(t *testing.T) {
	vt.Replay(t, prop, map[string]vt.Handler{
		"options": func(raw json.RawMessage) error {
			var c optCase
			if err := vt.Decode(raw, &c); err != nil {
				return err
			}
			return judgeOptions(c)
		},
		"docs": func(raw json.RawMessage) error {
			var c docsCase
			if err := vt.Decode(raw, &c); err != nil {
				return err
			}
			return judgeDocs(c)
		},
		"binary": func(raw json.RawMessage) error {
			var c binCase
			if err := vt.Decode(raw, &c); err != nil {
				return err
			}
			return judgeBinary(c)
		},
	})
}
