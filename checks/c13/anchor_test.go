package c13

// Hand cases: expected outputs written by hand from fieldmask/README.md, checked
// against (a) the reference filter of filter_test.go and (b) the generated
// code.  A case that the generated code gets wrong names the listed finding it
// is a shape of; it must fail exactly as long as that finding is listed as known.

import (
	"fmt"
	"testing"

	"verif/internal/idl"
	"verif/internal/ref"
	"verif/internal/vt"
)

const handIDL = `namespace go hand

struct Inner {
  1: required i32 rq,
  2: optional string os,
  3: list<i32> li,
  4: i64 dn,
}

struct A { 1: list<i32> l, 2: optional Inner oi, 3: i32 x }
struct B { 1: map<string,Inner> sm, 2: map<i32,list<i32>> im, 3: set<string> ss }
struct C { 1: required list<i32> rl, 2: required Inner ri, 3: required string rs, 4: i32 d, 5: required map<string,i32> rm, 6: optional i32 oi }
struct D { 1: list<Inner> ls, 2: map<double,i32> dm, 3: list<list<i32>> ll }
`

func handSchema() *ref.Schema {
	ty := func(k ref.Kind) *ref.Type { return &ref.Type{Kind: k} }
	inner := &ref.StructT{Name: "Inner", Kind: "struct"}
	innerT := &ref.Type{Kind: ref.Struct, Struct: inner}
	li := &ref.Type{Kind: ref.List, Elem: ty(ref.I32)}
	inner.Fields = []*ref.FieldT{
		{ID: 1, Name: "rq", Req: idl.ReqRequired, Type: ty(ref.I32)},
		{ID: 2, Name: "os", Req: idl.ReqOptional, Type: ty(ref.String)},
		{ID: 3, Name: "li", Type: li},
		{ID: 4, Name: "dn", Type: ty(ref.I64)},
	}
	a := &ref.StructT{Name: "A", Kind: "struct", Fields: []*ref.FieldT{
		{ID: 1, Name: "l", Type: li},
		{ID: 2, Name: "oi", Req: idl.ReqOptional, Type: innerT},
		{ID: 3, Name: "x", Type: ty(ref.I32)},
	}}
	b := &ref.StructT{Name: "B", Kind: "struct", Fields: []*ref.FieldT{
		{ID: 1, Name: "sm", Type: &ref.Type{Kind: ref.Map, Key: ty(ref.String), Elem: innerT}},
		{ID: 2, Name: "im", Type: &ref.Type{Kind: ref.Map, Key: ty(ref.I32), Elem: li}},
		{ID: 3, Name: "ss", Type: &ref.Type{Kind: ref.Set, Elem: ty(ref.String)}},
	}}
	c := &ref.StructT{Name: "C", Kind: "struct", Fields: []*ref.FieldT{
		{ID: 1, Name: "rl", Req: idl.ReqRequired, Type: li},
		{ID: 2, Name: "ri", Req: idl.ReqRequired, Type: innerT},
		{ID: 3, Name: "rs", Req: idl.ReqRequired, Type: ty(ref.String)},
		{ID: 4, Name: "d", Type: ty(ref.I32)},
		{ID: 5, Name: "rm", Req: idl.ReqRequired, Type: &ref.Type{Kind: ref.Map, Key: ty(ref.String), Elem: ty(ref.I32)}},
		{ID: 6, Name: "oi", Req: idl.ReqOptional, Type: ty(ref.I32)},
	}}
	d := &ref.StructT{Name: "D", Kind: "struct", Fields: []*ref.FieldT{
		{ID: 1, Name: "ls", Type: &ref.Type{Kind: ref.List, Elem: innerT}},
		{ID: 2, Name: "dm", Type: &ref.Type{Kind: ref.Map, Key: ty(ref.Double), Elem: ty(ref.I32)}},
		{ID: 3, Name: "ll", Type: &ref.Type{Kind: ref.List, Elem: li}},
	}}
	return &ref.Schema{Structs: []*ref.StructT{inner, a, b, c, d}}
}

// value constructors
func hl(e ...ref.V) *ref.ListV { return &ref.ListV{E: e} }
func hi(xs ...int) *ref.ListV {
	l := &ref.ListV{}
	for _, x := range xs {
		l.E = append(l.E, int64(x))
	}
	return l
}
func hm(kv ...ref.V) *ref.MapV {
	m := &ref.MapV{}
	for i := 0; i < len(kv); i += 2 {
		m.K = append(m.K, kv[i])
		m.E = append(m.E, kv[i+1])
	}
	return m
}
func hs(kv ...interface{}) *ref.StructV {
	s := ref.NewStruct()
	for i := 0; i < len(kv); i += 2 {
		var v ref.V = kv[i+1]
		if n, ok := v.(int); ok {
			v = int64(n)
		}
		if str, ok := v.(string); ok {
			v = []byte(str)
		}
		s.F[int32(kv[i].(int))] = v
	}
	return s
}
func bs(s string) ref.V { return []byte(s) }

type handCase struct {
	name   string
	st     string
	value  *ref.StructV
	paths  [][]pstep
	black  bool
	option string
	want   *ref.StructV // bytes written under the mask decode to this
	read   *ref.StructV // object after reading under the mask (nil: not stated by hand)
	bug    string       // listed finding the generated code shows on this case
}

func TestAnchor(t *testing.T) {
	sch := handSchema()
	fld := func(st, name string) pstep {
		f := sch.ByName(st).FieldByName(name)
		return pstep{kind: 'f', fld: f, elemT: f.Type}
	}
	fid := func(st, name string) pstep { s := fld(st, name); s.byID = true; return s }
	ix := func(v ...int64) pstep { return pstep{kind: 'i', ints: v} }
	ik := func(v ...int64) pstep { return pstep{kind: 'k', ints: v} }
	sk := func(v ...string) pstep { return pstep{kind: 's', strs: v} }
	istar := pstep{kind: 'i', star: true}
	kstar := pstep{kind: 'x', star: true}
	P := func(s ...pstep) []pstep { return s }

	oi := func() *ref.StructV { return hs(1, 5, 2, "o", 3, hi(5, 6, 7), 4, 50) }
	av := hs(1, hi(1, 2, 3, 4, 5), 2, oi(), 3, 9)
	k1 := func() *ref.StructV { return hs(1, 1, 2, "x", 3, hi(7, 8), 4, 9) }
	k2 := func() *ref.StructV { return hs(1, 2, 3, hi(), 4, 0) }
	bv := hs(1, hm(bs("k1"), k1(), bs("k2"), k2()), 2, hm(int64(1), hi(1, 2), int64(2), hi(), int64(7), hi(3)), 3, hl(bs("a"), bs("b"), bs("c")))
	ri := func() *ref.StructV { return hs(1, 6, 2, "r", 3, hi(9), 4, 60) }
	cv := hs(1, hi(10, 11, 12), 2, ri(), 3, "req", 4, 4, 5, hm(bs("a"), int64(1)), 6, 66)
	e0 := func() *ref.StructV { return hs(1, 8, 3, hi(), 4, 80) }
	e1 := func() *ref.StructV { return hs(1, 9, 2, "z", 3, hi(1, 2, 3), 4, 90) }
	dv := hs(1, hl(e0(), e1()), 2, hm(1.5, int64(15)), 3, hl(hi(1, 2), hi(3)))
	const zr = "field_mask_zero_required"

	cases := []handCase{
		{name: "white field", st: "A", value: av, paths: [][]pstep{P(fld("A", "x"))}, want: hs(3, 9), read: hs(1, hi(), 3, 9)},
		{name: "white last index of five", st: "A", value: av, paths: [][]pstep{P(fld("A", "l"), ix(4))}, want: hs(1, hi(5)), read: hs(1, hi(5), 3, 0), bug: fPreCount},
		{name: "white index out of range", st: "A", value: av, paths: [][]pstep{P(fld("A", "l"), ix(7))}, want: hs(1, hi()), bug: fPreCount},
		{name: "white first two indices", st: "A", value: av, paths: [][]pstep{P(fld("A", "l"), ix(0, 1))}, want: hs(1, hi(1, 2)), bug: fPreCount},
		{name: "white index suffix", st: "A", value: av, paths: [][]pstep{P(fld("A", "l"), ix(2, 3, 4))}, want: hs(1, hi(3, 4, 5)), read: hs(1, hi(3, 4, 5), 3, 0)},
		{name: "white nested star, required kept", st: "A", value: av, paths: [][]pstep{P(fld("A", "oi"), fld("Inner", "li"), istar), P(fld("A", "x"))},
			want: hs(2, hs(1, 5, 3, hi(5, 6, 7)), 3, 9), read: hs(1, hi(), 2, hs(1, 0, 3, hi(5, 6, 7), 4, 0), 3, 9)},
		{name: "white whole struct", st: "A", value: av, paths: [][]pstep{P(fld("A", "oi"))}, want: hs(2, oi())},
		{name: "white by id", st: "A", value: av, paths: [][]pstep{P(fid("A", "oi"), fid("Inner", "dn"))}, want: hs(2, hs(1, 5, 4, 50))},
		{name: "black field", st: "A", value: av, black: true, paths: [][]pstep{P(fld("A", "x"))}, want: hs(1, hi(1, 2, 3, 4, 5), 2, oi()), read: hs(1, hi(1, 2, 3, 4, 5), 2, oi(), 3, 0)},
		{name: "black index and nested optional", st: "A", value: av, black: true, paths: [][]pstep{P(fld("A", "l"), ix(0)), P(fld("A", "oi"), fld("Inner", "os"))},
			want: hs(1, hi(2, 3, 4, 5), 2, hs(1, 5, 3, hi(5, 6, 7), 4, 50), 3, 9)},
		{name: "black required scalar is still written", st: "A", value: av, black: true, paths: [][]pstep{P(fld("A", "oi"), fld("Inner", "rq"))}, want: av},
		{name: "black middle indices", st: "A", value: av, black: true, paths: [][]pstep{P(fld("A", "l"), ix(1, 2, 3, 9))}, want: hs(1, hi(1, 5), 2, oi(), 3, 9), bug: fPreCount},

		{name: "white str key then field, int keys present and absent", st: "B", value: bv, paths: [][]pstep{P(fld("B", "sm"), sk("k1"), fld("Inner", "dn")), P(fld("B", "im"), ik(7, 9))},
			want: hs(1, hm(bs("k1"), hs(1, 1, 4, 9)), 2, hm(int64(7), hi(3))), read: hs(1, hm(bs("k1"), hs(1, 0, 3, hi(), 4, 9)), 2, hm(int64(7), hi(3)), 3, hl())},
		{name: "black str key, index below int key", st: "B", value: bv, black: true, paths: [][]pstep{P(fld("B", "sm"), sk("k2")), P(fld("B", "im"), ik(1), ix(0))},
			want: hs(1, hm(bs("k1"), k1()), 2, hm(int64(1), hi(2), int64(2), hi(), int64(7), hi(3)), 3, hl(bs("a"), bs("b"), bs("c")))},
		{name: "white key star then field", st: "B", value: bv, paths: [][]pstep{P(fld("B", "sm"), pstep{kind: 's', star: true}, fld("Inner", "li"))},
			want: hs(1, hm(bs("k1"), hs(1, 1, 3, hi(7, 8)), bs("k2"), hs(1, 2, 3, hi())))},
		{name: "white set indices", st: "B", value: bv, paths: [][]pstep{P(fld("B", "ss"), ix(1, 2))}, want: hs(3, hl(bs("b"), bs("c")))},
		{name: "white absent key only", st: "B", value: bv, paths: [][]pstep{P(fld("B", "sm"), sk("nope"))}, want: hs(1, hm())},

		{name: "white: required fields keep their current value", st: "C", value: cv, paths: [][]pstep{P(fld("C", "d"))},
			want: hs(1, hi(10, 11, 12), 2, ri(), 3, "req", 4, 4, 5, hm(bs("a"), int64(1)))},
		{name: "white zero_required: required fields are zero", st: "C", value: cv, option: zr, paths: [][]pstep{P(fld("C", "d")), P(fld("C", "oi"))},
			want: hs(1, hi(), 2, hs(), 3, "", 4, 4, 5, hm(), 6, 66)},
		{name: "white zero_required: a filtered non-required field is not written", st: "C", value: cv, option: zr, paths: [][]pstep{P(fld("C", "rs"))},
			want: hs(1, hi(), 2, hs(), 3, "req", 5, hm()), bug: fZeroAll},
		{name: "black required list is still written", st: "C", value: cv, black: true, paths: [][]pstep{P(fld("C", "rl"))}, want: cv, bug: fBlackReqCont},
		{name: "black required map is still written", st: "C", value: cv, black: true, paths: [][]pstep{P(fld("C", "rm"))}, want: cv, bug: fBlackReqCont},
		{name: "black required struct is still written", st: "C", value: cv, black: true, paths: [][]pstep{P(fld("C", "ri"))}, want: cv, bug: fBlackReqCont},
		{name: "black zero_required struct and string", st: "C", value: cv, black: true, option: zr, paths: [][]pstep{P(fld("C", "ri")), P(fld("C", "rs"))},
			want: hs(1, hi(10, 11, 12), 2, hs(), 3, "", 4, 4, 5, hm(bs("a"), int64(1)), 6, 66)},
		{name: "white below a required struct", st: "C", value: cv, paths: [][]pstep{P(fld("C", "ri"), fld("Inner", "dn"))},
			want: hs(1, hi(10, 11, 12), 2, hs(1, 6, 4, 60), 3, "req", 5, hm(bs("a"), int64(1)))},

		{name: "white deep index, double-key map star", st: "D", value: dv, paths: [][]pstep{P(fld("D", "ls"), ix(1), fld("Inner", "li"), ix(2)), P(fld("D", "dm"), kstar)},
			want: hs(1, hl(hs(1, 9, 3, hi(3))), 2, hm(1.5, int64(15))), read: hs(1, hl(hs(1, 0, 3, hi(3), 4, 0)), 2, hm(1.5, int64(15)), 3, hl())},
		{name: "white star then index", st: "D", value: dv, paths: [][]pstep{P(fld("D", "ll"), istar, ix(0))}, want: hs(3, hl(hi(1), hi(3)))},
		{name: "black star then field, outer index", st: "D", value: dv, black: true, paths: [][]pstep{P(fld("D", "ls"), istar, fld("Inner", "dn")), P(fld("D", "ll"), ix(0))},
			want: hs(1, hl(hs(1, 8, 3, hi()), hs(1, 9, 2, "z", 3, hi(1, 2, 3))), 2, hm(1.5, int64(15)), 3, hl(hi(3)))},
		{name: "white root", st: "D", value: dv, paths: [][]pstep{{}}, want: dv},
		{name: "black root", st: "D", value: dv, black: true, paths: [][]pstep{{}}, want: hs()},
	}

	files := map[string]string{"main.thrift": handIDL}
	fresh := baselines{}
	for _, st := range sch.Structs {
		// the hand IDL has no defaults: non-optional scalars and containers start as zero
		o := ref.NewStruct()
		for _, f := range st.Fields {
			if f.Req != idl.ReqOptional && f.Type.Kind != ref.Struct {
				o.F[f.ID] = ref.Zero(f.Type)
			}
		}
		fresh[st.Name] = o
	}
	for _, hc := range cases {
		st := sch.ByName(hc.st)
		top := &ref.Type{Kind: ref.Struct, Struct: st}
		root, conflict := trieOf(hc.paths)
		if conflict {
			t.Fatalf("%s: hand paths conflict", hc.name)
		}
		m := fmode{black: hc.black, zeroReq: hc.option == zr}
		// (a) the reference filter agrees with the hand expectation
		gotW := filterWrite(top, hc.value, root, m)
		if !ref.Equal(gotW, hc.want) {
			t.Errorf("%s: reference filter (write) says %s, by hand %s", hc.name, ref.Show(gotW), ref.Show(hc.want))
		}
		wantR := filterRead(top, hc.value, root, m, fresh).(*ref.StructV)
		if hc.read != nil && !ref.Equal(ref.Normalise(top, wantR), ref.Normalise(top, hc.read)) {
			t.Errorf("%s: reference filter (read) says %s, by hand %s", hc.name, ref.Show(ref.Normalise(top, wantR)), ref.Show(ref.Normalise(top, hc.read)))
		}
		// the shape predicates name the finding
		w := &walker{m: m}
		w.walk(top, hc.value, root, nil, 0)
		shape := ""
		switch {
		case w.preCount:
			shape = fPreCount
		case m.zeroReq && len(w.offenders) > 0:
			shape = fZeroAll
		case !m.zeroReq && w.reqTerminal:
			shape = fBlackReqCont
		}
		if shape != hc.bug {
			t.Errorf("%s: shape predicates say %q, the hand case says %q", hc.name, shape, hc.bug)
		}
		// (b) the generated code
		c := maskCase{Main: "main.thrift", Files: files, Option: hc.option, Gen: genOf(hc.option), Schema: sch.Export(), Mode: "mask", Struct: hc.st,
			Value: ref.StructToJSON(st, hc.value), Paths: render(hc.paths), Black: hc.black, Exact: true,
			WantWrite: ref.StructToJSON(st, hc.want), WantRead: ref.StructToJSON(st, wantR)}
		o := judge(c)
		if o.status != "judged" {
			t.Fatalf("%s: status %s %v %s", hc.name, o.status, o.err, o.note)
		}
		switch {
		case hc.bug == "" && o.err != nil:
			t.Errorf("%s: %v", hc.name, o.err)
		case hc.bug != "" && o.err == nil && vt.Known(prop, hc.bug):
			t.Errorf("%s: expected to show the listed finding %s, but the generated code is right", hc.name, hc.bug)
		case hc.bug != "" && o.err != nil && !vt.Known(prop, hc.bug):
			t.Errorf("%s: %v", hc.name, o.err)
		case hc.bug != "" && o.err != nil && testing.Verbose():
			fmt.Printf("-- %s [%s]\n   %v\n", hc.name, hc.bug, o.err)
		}
	}
}
