// C08 — generated client and processor carry a call end to end.
package c08

import (
	"encoding/binary"
	"encoding/hex"
	"encoding/json"
	"fmt"
	"os"
	"regexp"
	"sort"
	"strings"
	"sync"
	"testing"

	"pgregory.net/rapid"

	"verif/internal/drv"
	"verif/internal/idl"
	"verif/internal/ref"
	"verif/internal/vt"
)

const prop = "C08"

func TestMain(m *testing.M) {
	vt.AtExit(drv.CloseAll)
	vt.Main(m)
}

// ---------- case ----------

// throwJ is one entry of a throws list.
type throwJ struct {
	ID  int32  `json:"id"`
	Exc string `json:"exc"` // IDL name of the exception
}

// methodJ is one function of the service (own or inherited) as the model has it.
type methodJ struct {
	Name      string   `json:"name"` // as written in the IDL
	Oneway    bool     `json:"oneway,omitempty"`
	Void      bool     `json:"void,omitempty"`
	ArgIDs    []int32  `json:"arg_ids"` // in declaration order = Go parameter order
	Throws    []throwJ `json:"throws,omitempty"`
	Inherited bool     `json:"inherited,omitempty"`
	CrossFile bool     `json:"cross_file,omitempty"` // declared by a base service in another file
}

type svcJ struct {
	Name    string    `json:"name"`
	File    string    `json:"file"`
	HasBase bool      `json:"has_base,omitempty"`
	Methods []methodJ `json:"methods"`
}

func (s *svcJ) method(name string) *methodJ {
	for i := range s.Methods {
		if s.Methods[i].Name == name {
			return &s.Methods[i]
		}
	}
	return nil
}

// scriptJ is what the handler does: value (return Value / nothing for void),
// exception (the declared exception ExcID of type Exc with fields Value),
// foreign (an exception type of the program that the method does not
// declare), error (errors.New).
type scriptJ struct {
	Kind  string      `json:"kind"`
	Value interface{} `json:"value,omitempty"`
	ExcID int32       `json:"exc_id,omitempty"`
	Exc   string      `json:"exc,omitempty"`
}

// callJ is one call; Unknown != "" sends that method name, which the service does not have.
type callJ struct {
	Method  string      `json:"method,omitempty"`
	Args    interface{} `json:"args,omitempty"` // value of <method>_args
	Script  scriptJ     `json:"script"`
	Unknown string      `json:"unknown,omitempty"`
}

// callCase is one program, one service, one sequence of calls on one connection.
// The expectations follow from the scripts and the schema (exported from the model).
type callCase struct {
	Main    string            `json:"main"`
	Files   map[string]string `json:"files"`
	Gen     string            `json:"gen"`
	Schema  *ref.SchemaJ      `json:"schema"`
	Service svcJ              `json:"service"`
	Calls   []callJ           `json:"calls"`
}

type outcome struct {
	status string // judged | rejected | nocompile | ambiguous | unmapped | harness
	detail string
	err    error
}

func harnessf(format string, args ...interface{}) outcome {
	return outcome{status: "harness", err: fmt.Errorf("harness: "+format, args...)}
}

// ---------- wire: message header (strict binary protocol), next to ref.Decode ----------

const (
	mCall      = 1
	mReply     = 2
	mException = 3
	mOneway    = 4
)

type message struct {
	Name string
	Type byte
	Seq  int32
	Body []byte
}

// parseMessage reads <version|type> <name> <seqid> of a strict binary-protocol
// message (Thrift specification) and returns the rest as the body.
func parseMessage(b []byte) (message, error) {
	var m message
	if len(b) < 4 {
		return m, fmt.Errorf("message of %d bytes has no header", len(b))
	}
	w := binary.BigEndian.Uint32(b)
	if w&0xffff0000 != 0x80010000 {
		return m, fmt.Errorf("first word %08x is not version 1 of the strict binary protocol", w)
	}
	if w&0x0000ff00 != 0 {
		return m, fmt.Errorf("first word %08x has bits set in the unused byte", w)
	}
	m.Type = byte(w)
	if len(b) < 8 {
		return m, fmt.Errorf("header ends before the method name")
	}
	n := int32(binary.BigEndian.Uint32(b[4:]))
	if n < 0 || int(n) > len(b)-12 {
		return m, fmt.Errorf("method name length %d does not fit a message of %d bytes", n, len(b))
	}
	m.Name = string(b[8 : 8+n])
	m.Seq = int32(binary.BigEndian.Uint32(b[8+n:]))
	m.Body = b[12+n:]
	return m, nil
}

var typeName = map[byte]string{mCall: "CALL", mReply: "REPLY", mException: "EXCEPTION", mOneway: "ONEWAY"}

func tname(t byte) string {
	if s, ok := typeName[t]; ok {
		return s
	}
	return fmt.Sprintf("type %d", t)
}

// appExcT is TApplicationException on the wire: 1: string message, 2: i32 type.
var appExcT = &ref.StructT{Name: "TApplicationException", Kind: "struct", Fields: []*ref.FieldT{
	{ID: 1, Name: "message", Type: &ref.Type{Kind: ref.String}},
	{ID: 2, Name: "type", Type: &ref.Type{Kind: ref.I32}},
}}

const (
	appUnknownMethod = 1
	appInternalError = 6
)

// ---------- what the driver reports about the generated services ----------

type goMethod struct {
	Go       string
	Wire     []string
	NIn      int
	NOut     int
	NoClient bool
	Panic    string
}

type goService struct {
	Key, Pkg, Go string
	Methods      []goMethod
	Panic        string
}

var (
	listMu    sync.Mutex
	listCache = map[*drv.Session][]goService{}
)

func str(x interface{}) string { s, _ := x.(string); return s }

func driverCall(sess *drv.Session, req map[string]interface{}) (map[string]interface{}, error) {
	resp, err := sess.Proc.Call(req)
	if err != nil {
		return nil, fmt.Errorf("harness: %v", err)
	}
	if h, ok := resp["harness"]; ok {
		return nil, fmt.Errorf("harness: driver: %v", h)
	}
	if p, ok := resp["panic"]; ok {
		return nil, fmt.Errorf("harness: driver panicked outside a call: %v", p)
	}
	return resp, nil
}

func listServices(sess *drv.Session) ([]goService, error) {
	listMu.Lock()
	defer listMu.Unlock()
	if l, ok := listCache[sess]; ok {
		return l, nil
	}
	resp, err := driverCall(sess, map[string]interface{}{"op": "svc_list"})
	if err != nil {
		return nil, err
	}
	var out []goService
	ss, _ := resp["services"].([]interface{})
	for _, s0 := range ss {
		s, _ := s0.(map[string]interface{})
		gs := goService{Key: str(s["key"]), Pkg: str(s["pkg"]), Go: str(s["go"]), Panic: str(s["panic"])}
		ms, _ := s["methods"].([]interface{})
		for _, m0 := range ms {
			m, _ := m0.(map[string]interface{})
			gm := goMethod{Go: str(m["go"]), NoClient: m["noclient"] == true, Panic: str(m["panic"])}
			if f, ok := m["nin"].(float64); ok {
				gm.NIn = int(f)
			}
			if f, ok := m["nout"].(float64); ok {
				gm.NOut = int(f)
			}
			ws, _ := m["wire"].([]interface{})
			for _, w := range ws {
				gm.Wire = append(gm.Wire, str(w))
			}
			gs.Methods = append(gs.Methods, gm)
		}
		out = append(out, gs)
	}
	if len(listCache) > 16 {
		listCache = map[*drv.Session][]goService{}
	}
	listCache[sess] = out
	return out, nil
}

func normName(s string) string { return strings.ToLower(strings.ReplaceAll(s, "_", "")) }

// matchService finds the generated service of an IDL service by behaviour: the
// set of method names its client sends equals the set of the IDL service's
// function names (own and inherited).  Several generated services with the
// same set (a service that only extends another, services without functions)
// are told apart by a style-independent comparison of the names; what stays
// ambiguous is skipped.
func matchService(all []goService, s *svcJ) (gs *goService, wire map[string]*goMethod, status string, why string) {
	want := map[string]bool{}
	for _, m := range s.Methods {
		want[m.Name] = true
	}
	var cands []*goService
	var seen []string
	for i := range all {
		g := &all[i]
		got := map[string]bool{}
		ok := g.Panic == ""
		for _, m := range g.Methods {
			if len(m.Wire) != 1 || got[m.Wire[0]] {
				ok = false
				break
			}
			got[m.Wire[0]] = true
		}
		if ok && len(got) == len(want) {
			for n := range want {
				if !got[n] {
					ok = false
				}
			}
		} else {
			ok = false
		}
		var ns []string
		for _, m := range g.Methods {
			ns = append(ns, fmt.Sprintf("%s->%v", m.Go, m.Wire))
		}
		seen = append(seen, fmt.Sprintf("%s{%s}", g.Key, strings.Join(ns, " ")))
		if ok {
			cands = append(cands, g)
		}
	}
	if len(cands) == 0 {
		return nil, nil, "none", strings.Join(seen, "; ")
	}
	if len(cands) > 1 {
		var byName []*goService
		for _, g := range cands {
			if normName(g.Go) == normName(s.Name) {
				byName = append(byName, g)
			}
		}
		if len(byName) != 1 {
			return nil, nil, "ambiguous", ""
		}
		cands = byName
	}
	gs = cands[0]
	wire = map[string]*goMethod{}
	for i := range gs.Methods {
		wire[gs.Methods[i].Wire[0]] = &gs.Methods[i]
	}
	return gs, wire, "ok", ""
}

// ---------- values ----------

func roundJSON(v interface{}) interface{} {
	b, _ := json.Marshal(v)
	var out interface{}
	json.Unmarshal(b, &out)
	return out
}

// complete makes a value explicit the way the driver builds the Go object
// (constructor first, then the named fields): an absent non-optional field
// holds its declared default, else the zero value.  Values drawn by
// ref.GenStruct set these fields, but the evaluated default of a struct-typed
// field names only the fields its literal mentions.  An absent optional binary
// field with a default is made explicit too (it holds the default): the
// generated IsSet of such a field is "differs from the default", so a nil
// slice there is the empty value, not the absent one.  ok is false when a
// non-optional union-typed field is absent (no such object can be written);
// in lenient mode (declared defaults, which only the constructor ever builds)
// such a field is left absent, as the constructor leaves it nil.
func complete(t *ref.Type, v ref.V, fuel int, lenient bool) (ref.V, bool) {
	if v == nil {
		return nil, true
	}
	switch t.Kind {
	case ref.List, ref.Set:
		o := &ref.ListV{E: []ref.V{}}
		for _, x := range v.(*ref.ListV).E {
			y, ok := complete(t.Elem, x, fuel, lenient)
			if !ok {
				return nil, false
			}
			o.E = append(o.E, y)
		}
		return o, true
	case ref.Map:
		m := v.(*ref.MapV)
		o := &ref.MapV{K: []ref.V{}, E: []ref.V{}}
		for i := range m.K {
			k, ok := complete(t.Key, m.K[i], fuel, lenient)
			if !ok {
				return nil, false
			}
			x, ok := complete(t.Elem, m.E[i], fuel, lenient)
			if !ok {
				return nil, false
			}
			o.K, o.E = append(o.K, k), append(o.E, x)
		}
		return o, true
	case ref.Struct:
		if fuel <= 0 {
			return nil, false
		}
		sv := v.(*ref.StructV)
		o := ref.NewStruct()
		for _, f := range t.Struct.Fields {
			fv, has := sv.F[f.ID]
			if !has || fv == nil {
				if t.Struct.Kind == "result" {
					continue
				}
				if f.Req == idl.ReqOptional || t.Struct.Kind == "union" {
					// (also for the other members of a union: a nil binary member with a default would count as a second member set)
					if f.HasDef && f.Type.Kind == ref.Binary && f.Default != nil {
						o.F[f.ID] = f.Default
					}
					continue
				}
				switch {
				case f.HasDef:
					fv = f.Default
				case f.Type.Kind == ref.Struct:
					if f.Type.Struct.Kind == "union" {
						if lenient {
							continue
						}
						return nil, false
					}
					fv = ref.NewStruct()
				default:
					fv = ref.Zero(f.Type)
				}
			}
			y, ok := complete(f.Type, fv, fuel-1, lenient)
			if !ok {
				return nil, false
			}
			// "set" for an optional double with a default is Go's != on float64: -0 counts as the default 0
			if d, isD := y.(float64); isD && f.HasDef && (f.Req == idl.ReqOptional || t.Struct.Kind == "union") {
				if dd, ok := f.Default.(float64); ok && d == dd {
					if t.Struct.Kind == "union" {
						return nil, false // a union whose only member counts as unset cannot be written
					}
					y = f.Default
				}
			}
			o.F[f.ID] = y
		}
		return o, true
	}
	return v, true
}

func completeSchema(sch *ref.Schema) {
	for _, st := range sch.Structs {
		for _, f := range st.Fields {
			if f.HasDef && f.Default != nil {
				if d, ok := complete(f.Type, f.Default, 32, true); ok {
					f.Default = d
				}
			}
		}
	}
}

func structType(st *ref.StructT) *ref.Type { return &ref.Type{Kind: ref.Struct, Struct: st} }

// orZero: a nil container / binary that comes out of a non-optional position is the empty one.
func orZero(t *ref.Type, v ref.V) ref.V {
	if v == nil {
		switch t.Kind {
		case ref.List, ref.Set, ref.Map, ref.Binary, ref.String:
			return ref.Zero(t)
		}
	}
	return v
}

// ---------- judge ----------

func judge(c callCase) outcome {
	sess, err := drv.Open(c.Files, c.Main, c.Gen, extra)
	if err != nil {
		return harnessf("%v", err)
	}
	if sess.Status != "ok" {
		if sess.Status == "nocompile" && ownFault(sess.Detail) {
			return harnessf("the synthesized handlers do not compile: %s", sess.Detail)
		}
		return outcome{status: sess.Status, detail: sess.Detail}
	}
	sch, err := ref.Import(c.Schema)
	if err != nil {
		return harnessf("%v", err)
	}
	completeSchema(sch)
	all, err := listServices(sess)
	if err != nil {
		return outcome{status: "harness", err: err}
	}
	svc := &c.Service
	gs, wire, st, why := matchService(all, svc)
	switch st {
	case "ambiguous":
		return outcome{status: "ambiguous"}
	case "none":
		var ns []string
		for _, m := range svc.Methods {
			ns = append(ns, m.Name)
		}
		sort.Strings(ns)
		return outcome{status: "judged", err: fmt.Errorf("service %s (%s): no generated client sends exactly the method names of the IDL %v\n  generated services and the names their clients send: %s", svc.Name, svc.File, ns, why)}
	}

	// build the request
	type prepared struct {
		m        *methodJ
		gm       *goMethod
		as, rs   *ref.StructT
		args     *ref.StructV
		wantArgs ref.V
		retT     *ref.Type
		val      ref.V // scripted value / exception fields
		excT     *ref.StructT
		excKey   string
	}
	preps := make([]prepared, len(c.Calls))
	var reqCalls []interface{}
	for i, cl := range c.Calls {
		if cl.Unknown != "" {
			if svc.method(cl.Unknown) != nil {
				return harnessf("call %d: %q is a method of the service", i, cl.Unknown)
			}
			reqCalls = append(reqCalls, map[string]interface{}{"unknown": cl.Unknown, "script": map[string]interface{}{"kind": "error"}})
			continue
		}
		m := svc.method(cl.Method)
		if m == nil {
			return harnessf("call %d: method %s not in the case's service", i, cl.Method)
		}
		p := prepared{m: m, gm: wire[m.Name]}
		p.as = sch.ByName(m.Name + "_args")
		if p.as == nil {
			return harnessf("no %s_args in the schema", m.Name)
		}
		if !m.Oneway {
			if p.rs = sch.ByName(m.Name + "_result"); p.rs == nil {
				return harnessf("no %s_result in the schema", m.Name)
			}
			if !m.Void {
				f := p.rs.Field(0)
				if f == nil {
					return harnessf("%s_result has no success", m.Name)
				}
				p.retT = f.Type
			}
		}
		av, err := ref.StructFromJSON(p.as, roundJSON(cl.Args))
		if err != nil || av == nil {
			return harnessf("call %d args: %v", i, err)
		}
		// idempotent on what the generator drew; keeps a hand-written case honest too
		var ok bool
		if av, ok = complete(structType(p.as), av, 32, false); !ok {
			return harnessf("call %d args: no such object", i)
		}
		p.args = av.(*ref.StructV)
		p.wantArgs = ref.Normalise(structType(p.as), p.args)
		if p.gm.NIn != len(m.ArgIDs) {
			return outcome{status: "judged", err: fmt.Errorf("service %s: Go method %s (sends %q) takes %d arguments, the IDL function has %d", svc.Name, p.gm.Go, m.Name, p.gm.NIn, len(m.ArgIDs))}
		}
		pos := []interface{}{}
		for _, id := range m.ArgIDs {
			f := p.as.Field(id)
			if f == nil {
				return harnessf("%s_args has no field %d", m.Name, id)
			}
			pos = append(pos, ref.ToJSON(f.Type, p.args.F[id]))
		}
		script := map[string]interface{}{"kind": cl.Script.Kind}
		switch cl.Script.Kind {
		case "value":
			if p.retT != nil {
				v, err := ref.FromJSON(p.retT, roundJSON(cl.Script.Value))
				if err != nil || v == nil {
					return harnessf("call %d scripted value: %v", i, err)
				}
				if v, ok = complete(p.retT, v, 32, false); !ok {
					return harnessf("call %d scripted value: no such object", i)
				}
				p.val = v
				script["value"] = ref.ToJSON(p.retT, v)
			}
		case "exception", "foreign":
			p.excT = sch.ByName(cl.Script.Exc)
			if p.excT == nil {
				return harnessf("call %d: exception %s not in the schema", i, cl.Script.Exc)
			}
			ti, ok := sess.Type(cl.Script.Exc)
			if !ok {
				return outcome{status: "unmapped", detail: fmt.Sprintf("exception %s is written by %d Go types", cl.Script.Exc, len(sess.ByIDL[cl.Script.Exc]))}
			}
			p.excKey = ti.Key
			v, err := ref.StructFromJSON(p.excT, roundJSON(cl.Script.Value))
			if err != nil || v == nil {
				return harnessf("call %d scripted exception: %v", i, err)
			}
			if v, ok = complete(structType(p.excT), v, 32, false); !ok {
				return harnessf("call %d scripted exception: no such object", i)
			}
			p.val = v
			script["kind"] = "exception"
			script["type"] = ti.Key
			script["value"] = ref.StructToJSON(p.excT, v.(*ref.StructV))
		case "error":
		default:
			return harnessf("call %d: script kind %q", i, cl.Script.Kind)
		}
		preps[i] = p
		reqCalls = append(reqCalls, map[string]interface{}{"method": p.gm.Go, "args": pos, "script": script})
	}
	resp, err := driverCall(sess, map[string]interface{}{"op": "svc_call", "service": gs.Key, "calls": reqCalls})
	if err != nil {
		return outcome{status: "harness", err: err}
	}
	results, _ := resp["results"].([]interface{})
	if len(results) != len(c.Calls) {
		return harnessf("driver answered %d of %d calls", len(results), len(c.Calls))
	}
	lastSeq := int32(0)
	for i, cl := range c.Calls {
		r, _ := results[i].(map[string]interface{})
		if h, ok := r["harness"]; ok {
			return harnessf("call %d: driver: %v", i, h)
		}
		what := fmt.Sprintf("service %s, call %d of %d: ", svc.Name, i+1, len(c.Calls))
		if cl.Unknown != "" {
			what += fmt.Sprintf("method name %q (not a function of the service)", cl.Unknown)
		} else {
			what += fmt.Sprintf("%s, handler answers with %s", describe(preps[i].m), cl.Script.Kind)
		}
		seq, err := judgeCall(sch, svc, &cl, preps[i].m, preps[i].gm, preps[i].as, preps[i].rs, preps[i].wantArgs, preps[i].retT, preps[i].val, preps[i].excT, preps[i].excKey, r, lastSeq)
		if err != nil {
			return outcome{status: "judged", err: fmt.Errorf("%s\n  %v", what, err)}
		}
		lastSeq = seq
	}
	return outcome{status: "judged"}
}

var compileErrLine = regexp.MustCompile(`(?:^|[ \t|])([^ \t|:]+\.go):\d+:\d+: `)

// ownFault: the build failed and every reported position lies in a file this
// check wrote.  An error inside thriftgo's own files (C01 decides those) can
// drag the synthesized files along, e.g. a redeclared constructor.
func ownFault(detail string) bool {
	own, other := 0, 0
	for _, m := range compileErrLine.FindAllStringSubmatch(detail, -1) {
		b := m[1][strings.LastIndex(m[1], "/")+1:]
		if strings.HasPrefix(b, "zz_verif_svc") || b == "x_svc.go" {
			own++
		} else {
			other++
		}
	}
	return own > 0 && other == 0
}

func describe(m *methodJ) string {
	k := "value"
	if m.Oneway {
		k = "oneway"
	} else if m.Void {
		k = "void"
	}
	s := fmt.Sprintf("%s function %s (%d args, %d throws)", k, m.Name, len(m.ArgIDs), len(m.Throws))
	if m.Inherited {
		s += " inherited from the base service"
		if m.CrossFile {
			s += " of an included file"
		}
	}
	return s
}

func errDesc(e map[string]interface{}) string {
	if e == nil {
		return "no error"
	}
	s := fmt.Sprintf("%v %q", e["gotype"], e["msg"])
	if e["app"] == true {
		s += fmt.Sprintf(" (application exception type %v)", e["app_type"])
	}
	return s
}

// judgeCall decides one call; it returns the sequence id of the request.
func judgeCall(sch *ref.Schema, svc *svcJ, cl *callJ, m *methodJ, gm *goMethod, as, rs *ref.StructT, wantArgs ref.V, retT *ref.Type, val ref.V, excT *ref.StructT, excKey string, r map[string]interface{}, lastSeq int32) (int32, error) {
	if p, ok := r["panic"]; ok {
		return 0, fmt.Errorf("the call panicked: %v", p)
	}
	exs, _ := r["exchanges"].([]interface{})
	cerr, _ := r["err"].(map[string]interface{})
	if len(exs) != 1 {
		return 0, fmt.Errorf("the client flushed %d messages for one call, want 1\n  caller got %s", len(exs), errDesc(cerr))
	}
	ex, _ := exs[0].(map[string]interface{})
	if p, ok := ex["panic"]; ok {
		return 0, fmt.Errorf("the generated processor panicked: %v", p)
	}
	reqB, _ := hex.DecodeString(str(ex["req"]))
	repB, _ := hex.DecodeString(str(ex["rep"]))
	handler, _ := r["handler"].([]interface{})
	unknown := cl.Unknown != ""

	// ---- request on the wire
	req, err := parseMessage(reqB)
	if err != nil {
		return 0, fmt.Errorf("request: %v\n  bytes %x", err, reqB)
	}
	wantName := cl.Unknown
	if !unknown {
		wantName = m.Name
	}
	if req.Name != wantName {
		return 0, fmt.Errorf("request carries method name %q, the IDL says %q", req.Name, wantName)
	}
	// DESIGN §5a: apache's TStandardClient types a oneway request CALL; both are accepted for oneway
	if !(req.Type == mCall || (!unknown && m.Oneway && req.Type == mOneway)) {
		return 0, fmt.Errorf("request has message type %s", tname(req.Type))
	}
	if req.Seq <= lastSeq {
		return 0, fmt.Errorf("request sequence id %d does not increase (previous call had %d)", req.Seq, lastSeq)
	}
	if u, _ := ex["unflushed"].(float64); u != 0 {
		return 0, fmt.Errorf("the processor wrote %d reply bytes without flushing them: behind a buffering or framing transport the caller never receives them (and they precede the next reply)\n  request %x", int(u), reqB)
	}
	if u, _ := ex["unread"].(float64); u != 0 {
		return 0, fmt.Errorf("the processor left %d bytes of the request unread (the next message on a stream would be misread)\n  request %x", int(u), reqB)
	}
	if !unknown {
		dr, derr := ref.Decode(as, req.Body, false)
		if derr != nil {
			return 0, fmt.Errorf("request payload is not a valid %s under the IDL: %v\n  passed %s\n  payload %x", as.Name, derr, ref.Show(wantArgs), req.Body)
		}
		if got := ref.Normalise(structType(as), dr.Value); !ref.Equal(wantArgs, got) {
			return 0, fmt.Errorf("request payload carries different arguments (field id = IDL id)\n  passed  %s\n  on wire %s\n  payload %x", ref.Show(wantArgs), ref.Show(got), req.Body)
		}
	}

	// ---- handler
	if unknown {
		if len(handler) != 0 {
			return 0, fmt.Errorf("the handler was called (%v) for an unknown method name", handler)
		}
	} else {
		if len(handler) != 1 {
			return 0, fmt.Errorf("the handler was called %d times, want once (method %s is not dispatched)\n  caller got %s\n  reply %x", len(handler), m.Name, errDesc(cerr), repB)
		}
		h, _ := handler[0].(map[string]interface{})
		if str(h["method"]) != gm.Go {
			return 0, fmt.Errorf("the call of %s (Go %s) was dispatched to handler method %s", m.Name, gm.Go, str(h["method"]))
		}
		raw, _ := h["args"].([]interface{})
		if len(raw) != len(m.ArgIDs) {
			return 0, fmt.Errorf("the handler received %d arguments, want %d", len(raw), len(m.ArgIDs))
		}
		got := ref.NewStruct()
		for k, id := range m.ArgIDs {
			f := as.Field(id)
			x, err := ref.FromJSON(f.Type, raw[k])
			if err != nil {
				return 0, fmt.Errorf("argument %d (%s) received by the handler does not fit its IDL type: %v", k+1, f.Name, err)
			}
			if x != nil {
				got.F[id] = x
			}
		}
		if g := ref.Normalise(structType(as), got); !ref.Equal(wantArgs, g) {
			return 0, fmt.Errorf("the handler received different argument values\n  first difference: %s\n  passed   %s\n  received %s", vt.Truncate(ref.FirstDiff(wantArgs, g), 1500), ref.Show(wantArgs), ref.Show(g))
		}
	}

	// ---- oneway: no reply
	if !unknown && m.Oneway {
		if len(repB) != 0 {
			return 0, fmt.Errorf("a oneway method produced %d reply bytes: %x", len(repB), repB)
		}
		if cerr != nil {
			return 0, fmt.Errorf("the caller of a oneway method got %s", errDesc(cerr))
		}
		return req.Seq, nil
	}

	// ---- reply on the wire
	rep, err := parseMessage(repB)
	if err != nil {
		return 0, fmt.Errorf("reply: %v\n  bytes %x\n  caller got %s", err, repB, errDesc(cerr))
	}
	if rep.Name != wantName {
		return 0, fmt.Errorf("reply carries method name %q, the request had %q", rep.Name, wantName)
	}
	if rep.Seq != req.Seq {
		return 0, fmt.Errorf("reply has sequence id %d, the request had %d", rep.Seq, req.Seq)
	}
	if u, _ := r["rep_unread"].(float64); u != 0 {
		return 0, fmt.Errorf("the client left %d bytes of the reply unread\n  reply %x", int(u), repB)
	}
	kind := cl.Script.Kind
	if unknown {
		kind = "unknown"
	}
	switch kind {
	case "unknown", "error", "foreign":
		wantT, wantS := int64(appInternalError), "INTERNAL_ERROR"
		if unknown {
			wantT, wantS = appUnknownMethod, "UNKNOWN_METHOD"
		}
		if rep.Type != mException {
			return 0, fmt.Errorf("reply has message type %s, want EXCEPTION\n  reply %x", tname(rep.Type), repB)
		}
		dr, derr := ref.Decode(appExcT, rep.Body, false)
		if derr != nil {
			return 0, fmt.Errorf("reply payload is not an application exception: %v\n  payload %x", derr, rep.Body)
		}
		if t, ok := dr.Value.F[2].(int64); !ok || t != wantT {
			return 0, fmt.Errorf("application exception on the wire has type %v, want %d (%s)", dr.Value.F[2], wantT, wantS)
		}
		if cerr == nil || cerr["app"] != true {
			return 0, fmt.Errorf("the caller got %s, want a thrift.TApplicationException (%s)", errDesc(cerr), wantS)
		}
		if t, _ := cerr["app_type"].(float64); int64(t) != wantT {
			return 0, fmt.Errorf("the caller got %s, want application exception type %d (%s)", errDesc(cerr), wantT, wantS)
		}
		return req.Seq, nil
	}
	if rep.Type != mReply {
		return 0, fmt.Errorf("reply has message type %s, want REPLY\n  reply %x\n  caller got %s", tname(rep.Type), repB, errDesc(cerr))
	}
	wantRes := ref.NewStruct()
	switch kind {
	case "value":
		if retT != nil {
			wantRes.F[0] = val
		}
	case "exception":
		wantRes.F[cl.Script.ExcID] = val
	}
	wantResN := ref.Normalise(structType(rs), wantRes)
	dr, derr := ref.Decode(rs, rep.Body, false)
	if derr != nil {
		return 0, fmt.Errorf("reply payload is not a valid %s under the IDL (success = id 0, exceptions use their IDL ids): %v\n  scripted %s\n  payload %x", rs.Name, derr, ref.Show(wantResN), rep.Body)
	}
	if got := ref.Normalise(structType(rs), dr.Value); !ref.Equal(wantResN, got) {
		return 0, fmt.Errorf("reply payload differs from what the handler returned (success = id 0, exceptions use their IDL ids)\n  handler %s\n  on wire %s\n  payload %x", ref.Show(wantResN), ref.Show(got), rep.Body)
	}
	// ---- caller
	switch kind {
	case "value":
		if cerr != nil {
			return 0, fmt.Errorf("the handler returned normally, the caller got %s", errDesc(cerr))
		}
		if retT != nil {
			if r["has_ret"] != true {
				return 0, fmt.Errorf("the client method has no result value")
			}
			got, err := ref.FromJSON(retT, r["ret"])
			if err != nil {
				return 0, fmt.Errorf("the caller's result does not fit the IDL return type: %v", err)
			}
			got = orZero(retT, got)
			if got == nil {
				return 0, fmt.Errorf("the caller received no result value\n  handler returned %s", ref.Show(val))
			}
			if w, g := ref.Normalise(retT, val), ref.Normalise(retT, got); !ref.Equal(w, g) {
				return 0, fmt.Errorf("the caller received a different result\n  handler returned %s\n  caller received  %s", ref.Show(w), ref.Show(g))
			}
		}
	case "exception":
		if cerr == nil {
			return 0, fmt.Errorf("the handler returned the declared exception %s (throws id %d), the caller got no error", cl.Script.Exc, cl.Script.ExcID)
		}
		if str(cerr["key"]) != excKey {
			return 0, fmt.Errorf("the handler returned the declared exception %s (Go type %s, throws id %d), the caller got %s", cl.Script.Exc, excKey, cl.Script.ExcID, errDesc(cerr))
		}
		got, err := ref.StructFromJSON(excT, cerr["value"])
		if err != nil || got == nil {
			return 0, fmt.Errorf("the exception object at the caller does not fit the IDL: %v", err)
		}
		if w, g := ref.Normalise(structType(excT), val), ref.Normalise(structType(excT), got); !ref.Equal(w, g) {
			return 0, fmt.Errorf("the exception arrives with different fields\n  handler returned %s\n  caller received  %s", ref.Show(w), ref.Show(g))
		}
	}
	return req.Seq, nil
}

// ---------- generation ----------

func modelCfg(rt *rapid.T) idl.Cfg {
	c := idl.GoSafe()
	c.MaxFiles = 3
	c.MaxDefs = 3
	c.Services = true
	c.Annotations = false
	c.NastyLits = false
	c.Comments = false
	c.DistinctThrows = true
	c.NoZeroThrowsID = true // id 0 in a throws list is the id of `success` in the result struct
	// constants carry nothing of a call; without them the programs that C01/C06's listed
	// findings about constant initialisers make unusable (rejected / not compiling) do not occur
	c.Consts = false
	c.ArgOptional = true // `optional` arguments are default-requiredness arguments
	// base services in the same Go package (two files, one namespace) and in packages named after the file
	c.SharedNS = rapid.IntRange(0, 3).Draw(rt, "sharedns") == 0
	c.NoNamespace = true
	if vt.Known("C05", "enum-via-typedef-far") {
		// the front end binds such a default to nothing (C05's listed finding): thriftgo rejects the program
		c.EnumViaTypedefFar = false
		vt.Excluded("C05-enum-via-typedef-far")
	}
	// `void f(1: i32 a = 5)`: every argument is always passed, so the values must still arrive unchanged
	c.ArgDefaults = rapid.IntRange(0, 3).Draw(rt, "argdefaults") == 0
	return c
}

// names that are Go keywords, predeclared identifiers or identifiers the
// generated client / processor code uses itself (property: "names colliding
// with Go keywords or with generated identifiers").  A program thriftgo
// rejects or whose output does not compile is C01/C04's business: counted, skipped.
var stressFuncs = []string{"type", "func", "range", "select", "go", "chan", "defer", "var", "package", "import", "interface", "switch", "case", "default", "return", "for", "if",
	"Process", "process", "String", "Error", "Read", "Write", "new", "New", "init", "main", "nil", "len", "error", "Client", "Processor", "Success", "handler", "get_success", "Args", "Result", "args", "result"}
var stressArgs = []string{"ctx", "err", "p", "r", "_args", "_result", "args", "result", "type", "func", "range", "go", "select", "nil", "error", "len", "thrift", "context", "fmt", "self",
	"success", "Success", "iprot", "oprot", "seqId", "err2", "retval", "x", "v", "handler", "name", "ctx_", "_type", "int32", "string", "append", "new", "make", "Ctx", "Err", "P"}

// stress renames some functions, arguments and throws entries of the model's
// services (nothing refers to these names, so the model stays consistent).
func stress(rt *rapid.T, p *idl.Program) bool {
	fnNames := map[string]bool{} // exact function names of the program (the schema names <fn>_args by them)
	defNames := map[string]bool{}
	for _, f := range p.Files {
		for _, d := range f.Defs {
			defNames[d.Name] = true
			for _, fn := range d.Funcs {
				fnNames[fn.Name] = true
			}
		}
	}
	variant := func(name, label string) string {
		switch rapid.IntRange(0, 3).Draw(rt, label) {
		case 0, 1:
			// the same letters in another case (x / X, name / Name)
			if up := strings.ToUpper(name[:1]) + name[1:]; up != name {
				return up
			}
			return strings.ToLower(name[:1]) + name[1:]
		case 2:
			return name[:1] + "_" + name[1:]
		}
		return name + "_"
	}
	changed := false
	for _, f := range p.Files {
		for _, d := range f.Defs {
			if d.Kind != idl.KService {
				continue
			}
			// functions the Go method set of this service also holds: its own earlier ones and the inherited ones
			var siblings []string
			for b := d.Extends; b != nil; b = b.Extends {
				for _, fn := range b.Funcs {
					siblings = append(siblings, fn.Name)
				}
			}
			for _, fn := range d.Funcs {
				n := ""
				switch k := rapid.IntRange(0, 9).Draw(rt, "stressfn"); {
				case k <= 1:
					n = rapid.SampledFrom(stressFuncs).Draw(rt, "fnname")
				case k == 2 && len(siblings) > 0:
					// differs from a sibling only by case / underscores: one Go method name for two IDL functions
					n = variant(rapid.SampledFrom(siblings).Draw(rt, "sibling"), "fnvariant")
				}
				if n != "" && !fnNames[n] && !reservedIDL[n] {
					fnNames[n] = true
					fn.Name = n
					changed = true
				}
				siblings = append(siblings, fn.Name)
				used := map[string]bool{}
				var prev []string
				for _, list := range [][]*idl.Field{fn.Args, fn.Throws} {
					for _, a := range list {
						used[a.Name] = true
					}
				}
				for _, list := range [][]*idl.Field{fn.Args, fn.Throws} {
					for _, a := range list {
						n := ""
						switch k := rapid.IntRange(0, 9).Draw(rt, "stressarg"); {
						case k <= 1:
							n = rapid.SampledFrom(stressArgs).Draw(rt, "argname")
						case k >= 2 && k <= 4 && len(prev) > 0:
							// differs from an earlier argument of the same function only by case / underscores
							n = variant(rapid.SampledFrom(prev).Draw(rt, "prevarg"), "argvariant")
						}
						if n != "" && !used[n] && !reservedIDL[n] {
							used[n] = true
							a.Name = n
							changed = true
						}
						prev = append(prev, a.Name)
					}
				}
			}
			// a struct-like of the same file named like an identifier the service code declares itself
			if rapid.IntRange(0, 3).Draw(rt, "collide") == 0 {
				var sl []*idl.Def
				for _, x := range f.Defs {
					if x.Kind.IsStructLike() {
						sl = append(sl, x)
					}
				}
				if len(sl) > 0 {
					x := rapid.SampledFrom(sl).Draw(rt, "collider")
					// not generated: struct New<S>Client, New<S>Processor, <S>ClientFactory, <S>ClientProtocol: their
					// constructors are redeclared by the service's constructor functions (does not compile: C01's business)
					cands := []string{d.Name + "Client", d.Name + "Processor"}
					for _, fn := range d.Funcs {
						up := strings.ToUpper(fn.Name[:1]) + fn.Name[1:]
						cands = append(cands, d.Name+up+"Args", d.Name+up+"Result", d.Name+"Processor"+up)
					}
					if n := rapid.SampledFrom(cands).Draw(rt, "collidename"); !defNames[n] {
						defNames[n] = true
						x.Name = n
						changed = true
					}
				}
			}
		}
	}
	return changed
}

var reservedIDL = map[string]bool{"bool": true, "byte": true, "i8": true, "i16": true, "i32": true, "i64": true, "double": true, "string": true, "binary": true,
	"map": true, "set": true, "list": true, "void": true, "const": true, "typedef": true, "enum": true, "struct": true, "union": true, "exception": true,
	"service": true, "extends": true, "throws": true, "oneway": true, "include": true, "cpp_include": true, "namespace": true, "cpp_type": true,
	"required": true, "optional": true, "true": true, "false": true}

// extend gives some services without a base one: the model's generator draws
// `extends` for a third of the services and only towards services generated
// before, which leaves most programs without any service hierarchy.  The base
// is a service the file can name (its own or an included file's) whose own
// chain does not lead back (no cycle).
func extend(rt *rapid.T, p *idl.Program) {
	for _, f := range p.Files {
		for _, d := range f.DefsOf(idl.KService) {
			if d.Extends != nil {
				continue
			}
			var cands []*idl.Def
			for _, g := range append([]*idl.File{f}, f.Includes...) {
				for _, b := range g.DefsOf(idl.KService) {
					ok := b != d
					for x := b; x != nil && ok; x = x.Extends {
						if x == d {
							ok = false
						}
					}
					if ok {
						cands = append(cands, b)
					}
				}
			}
			if len(cands) > 0 && rapid.IntRange(0, 2).Draw(rt, "addextends") == 0 {
				d.Extends = rapid.SampledFrom(cands).Draw(rt, "newbase")
			}
		}
	}
}

// enrich adds throws entries to functions that have none: the model's own
// generator declares exceptions rarely (one struct-like in five is an
// exception and half of the functions have no throws clause), and the
// exception path is the larger half of this property.  Only exception types
// the service's file can name are used, each at most once per function, ids
// positive and distinct (same preconditions as the model's own throws lists).
func enrich(rt *rapid.T, p *idl.Program) {
	n := 0
	for _, f := range p.Files {
		var excs []*idl.Def // exceptions, and typedefs of exceptions
		for _, g := range append([]*idl.File{f}, f.Includes...) {
			for _, x := range g.Defs {
				if x.Kind == idl.KException || (x.Kind == idl.KTypedef && x.Type.FinalCat() == "exception") {
					excs = append(excs, x)
				}
			}
		}
		if len(excs) == 0 {
			continue
		}
		for _, d := range f.DefsOf(idl.KService) {
			for _, fn := range d.Funcs {
				if fn.Oneway || len(fn.Throws) > 0 || rapid.IntRange(0, 2).Draw(rt, "addthrows") == 0 {
					continue
				}
				k := rapid.IntRange(1, 3).Draw(rt, "nthrows")
				perm := rapid.Permutation(excs).Draw(rt, "throwtypes")
				id := int32(0)
				seen := map[*idl.Def]bool{} // each exception type at most once, also through typedefs
				for _, x := range perm {
					t := &idl.Type{Ref: x}
					if fin := t.Final().Ref; !seen[fin] && len(fn.Throws) < k {
						seen[fin] = true
						id += int32(rapid.IntRange(1, 9).Draw(rt, "throwid"))
						n++
						fn.Throws = append(fn.Throws, &idl.Field{ID: id, Explicit: true, Name: fmt.Sprintf("fexc%d_%d", id, n), Type: t})
					}
				}
				fn.HasThrows = true
			}
		}
	}
}

// options that change names or accessors but must not change how a call is carried
var presentation = []string{"naming_style=golint", "naming_style=apache", "ignore_initialisms", "compatible_names", "nil_safe", "gen_setter", "keep_unknown_fields", "reorder_fields"}

func genSpec(rt *rapid.T) string {
	if rapid.IntRange(0, 2).Draw(rt, "plain") > 0 {
		return "go"
	}
	opts := []string{rapid.SampledFrom(presentation).Draw(rt, "opt")}
	if o := rapid.SampledFrom(presentation).Draw(rt, "opt2"); o != opts[0] && !(strings.HasPrefix(o, "naming_style") && strings.HasPrefix(opts[0], "naming_style")) {
		opts = append(opts, o)
	}
	return "go:" + strings.Join(opts, ",")
}

type svcModel struct {
	def *idl.Def
	j   svcJ
}

// reachable is the set of files thriftgo -r generates: main and what it includes, transitively.
func reachable(p *idl.Program) map[*idl.File]bool {
	seen := map[*idl.File]bool{}
	var walk func(f *idl.File)
	walk = func(f *idl.File) {
		if seen[f] {
			return
		}
		seen[f] = true
		for _, g := range f.Includes {
			walk(g)
		}
	}
	walk(p.Files[0])
	return seen
}

func services(p *idl.Program) []*svcModel {
	var out []*svcModel
	reach := reachable(p)
	for _, f := range p.Files {
		if !reach[f] {
			continue // not included by main (directly or not): no code is generated for it
		}
		for _, d := range f.Defs {
			if d.Kind != idl.KService {
				continue
			}
			sm := &svcModel{def: d, j: svcJ{Name: d.Name, File: f.Path, HasBase: d.Extends != nil, Methods: []methodJ{}}}
			for cur := d; cur != nil; cur = cur.Extends {
				for _, fn := range cur.Funcs {
					m := methodJ{Name: fn.Name, Oneway: fn.Oneway, Void: fn.Ret == nil, ArgIDs: []int32{}, Inherited: cur != d, CrossFile: cur.File != d.File}
					for _, a := range fn.Args {
						m.ArgIDs = append(m.ArgIDs, a.ID)
					}
					for _, t := range fn.Throws {
						m.Throws = append(m.Throws, throwJ{ID: t.ID, Exc: t.Type.Final().Ref.Name})
					}
					sm.j.Methods = append(sm.j.Methods, m)
				}
			}
			out = append(out, sm)
		}
	}
	return out
}

func exceptions(sch *ref.Schema, reach map[*idl.File]bool) []*ref.StructT {
	var out []*ref.StructT
	for _, st := range sch.Structs {
		if st.Kind == "exception" && reach[st.File] {
			out = append(out, st)
		}
	}
	return out
}

// genValue draws a complete value of a struct-like (nil if none can be built).
func genStructValue(rt *rapid.T, st *ref.StructT) *ref.StructV {
	v := ref.GenStruct(rt, st, ref.GenOpts{})
	if v == nil {
		return nil
	}
	cv, ok := complete(structType(st), v, 32, false)
	if !ok {
		return nil
	}
	return cv.(*ref.StructV)
}

const unknownName = "zz_no_such_method"

// genCall draws one call of the service; ok is false if no value could be built.
func genCall(rt *rapid.T, sch *ref.Schema, sm *svcModel, excs []*ref.StructT) (callJ, bool) {
	s := &sm.j
	if len(s.Methods) == 0 || rapid.IntRange(0, 9).Draw(rt, "unknown") == 0 {
		n := unknownName
		if rapid.Bool().Draw(rt, "emptyname") {
			n = "Zz" // a short one
		}
		return callJ{Unknown: n, Script: scriptJ{Kind: "error"}}, true
	}
	m := &s.Methods[rapid.IntRange(0, len(s.Methods)-1).Draw(rt, "method")]
	as := sch.ByName(m.Name + "_args")
	av := genStructValue(rt, as)
	if av == nil {
		return callJ{}, false
	}
	c := callJ{Method: m.Name, Args: ref.StructToJSON(as, av)}
	kinds := []string{"value", "value", "error"}
	if !m.Oneway {
		if len(m.Throws) > 0 {
			kinds = append(kinds, "exception", "exception", "exception")
		}
		if len(excs) > len(m.Throws) {
			kinds = append(kinds, "foreign")
		}
	}
	switch k := rapid.SampledFrom(kinds).Draw(rt, "outcome"); k {
	case "value":
		c.Script.Kind = "value"
		if !m.Oneway && !m.Void {
			rs := sch.ByName(m.Name + "_result")
			retT := rs.Field(0).Type
			v := ref.GenValue(rt, retT, ref.GenOpts{})
			if v == nil {
				return callJ{}, false
			}
			v, ok := complete(retT, v, 32, false)
			if !ok {
				return callJ{}, false
			}
			c.Script.Value = ref.ToJSON(retT, v)
		}
	case "exception":
		th := m.Throws[rapid.IntRange(0, len(m.Throws)-1).Draw(rt, "throw")]
		es := sch.ByName(th.Exc)
		ev := genStructValue(rt, es)
		if ev == nil {
			return callJ{}, false
		}
		c.Script = scriptJ{Kind: "exception", ExcID: th.ID, Exc: th.Exc, Value: ref.StructToJSON(es, ev)}
	case "foreign":
		var cands []*ref.StructT
		for _, e := range excs {
			declared := false
			for _, th := range m.Throws {
				if th.Exc == e.Name {
					declared = true
				}
			}
			if !declared {
				cands = append(cands, e)
			}
		}
		es := rapid.SampledFrom(cands).Draw(rt, "foreignexc")
		ev := genStructValue(rt, es)
		if ev == nil {
			return callJ{}, false
		}
		c.Script = scriptJ{Kind: "foreign", Exc: es.Name, Value: ref.StructToJSON(es, ev)}
	default:
		c.Script.Kind = "error"
	}
	return c, true
}

func outcomeKind(c *callJ) string {
	if c.Unknown != "" {
		return "unknown_method"
	}
	switch c.Script.Kind {
	case "exception":
		return "declared_exception"
	case "foreign":
		return "undeclared_exception_type"
	case "error":
		return "undeclared_error"
	}
	return "value"
}

func TestCalls(t *testing.T) {
	rapid.Check(t, func(rt *rapid.T) {
		p := idl.Gen(rt, modelCfg(rt))
		extend(rt, p)
		enrich(rt, p)
		stressed := false
		if rapid.IntRange(0, 2).Draw(rt, "stress") > 0 {
			stressed = stress(rt, p)
		}
		svcs := services(p)
		if len(svcs) == 0 {
			rt.Skip("no service in the program")
		}
		sch := ref.Build(p)
		completeSchema(sch)
		excs := exceptions(sch, reachable(p))
		base := callCase{Main: p.Files[0].Path, Files: p.Texts(nil), Gen: genSpec(rt), Schema: sch.Export()}
		// services with a base service are the rarer and more interesting ones
		var pick []*svcModel
		for _, s := range svcs {
			pick = append(pick, s)
			if len(s.j.Methods) > 0 {
				pick = append(pick, s, s, s) // a service without functions only answers "unknown method"
				if s.def.Extends != nil {
					pick = append(pick, s, s, s, s)
				}
			}
		}
		nseq := rapid.IntRange(20, 50).Draw(rt, "nsequences")
		for q := 0; q < nseq; q++ {
			sm := rapid.SampledFrom(pick).Draw(rt, "service")
			c := base
			c.Service = sm.j
			n := rapid.IntRange(1, 8).Draw(rt, "ncalls")
			if len(sm.j.Methods) == 0 {
				n = 1
			}
			for i := 0; i < n; i++ {
				cl, ok := genCall(rt, sch, sm, excs)
				if !ok {
					vt.Class("value_not_constructible")
					continue
				}
				c.Calls = append(c.Calls, cl)
			}
			if len(c.Calls) == 0 {
				continue
			}
			o := judge(c)
			vt.Class("sequence:" + o.status)
			if o.status != "judged" && o.err == nil {
				if o.status == "rejected" || o.status == "nocompile" {
					vt.Class("session:" + o.status)
					vt.ClassIf(stressed, "session:"+o.status+"_with_stress_names")
					vt.Class("session_detail:" + vt.Truncate(o.detail, 160))
					if d := os.Getenv("VERIF_C08_DUMP"); d != "" { // development aid: keep the program for a look
						b, _ := json.MarshalIndent(c, "", " ")
						os.WriteFile(fmt.Sprintf("%s/%s-%d.json", d, o.status, len(b)), b, 0o644)
					}
					vt.Sample(map[string]interface{}{"program": p.Describe(), "gen": c.Gen, "status": o.status, "detail": vt.Truncate(o.detail, 300)})
					return
				}
				vt.ClassIf(o.detail != "", "detail:"+vt.Truncate(o.detail, 100))
				if d := os.Getenv("VERIF_C08_DUMP"); d != "" && o.detail != "" {
					b, _ := json.MarshalIndent(c, "", " ")
					os.WriteFile(fmt.Sprintf("%s/%s-%d.json", d, o.status, len(b)), b, 0o644)
				}
				continue
			}
			if o.err != nil && strings.HasPrefix(o.err.Error(), "harness:") {
				rt.Fatalf("%v", o.err)
			}
			kinds := map[string]bool{}
			throws := false
			for i := range c.Calls {
				cl := &c.Calls[i]
				vt.Eval()
				k := outcomeKind(cl)
				kinds[k] = true
				vt.Class("outcome:" + k)
				if cl.Unknown != "" {
					continue
				}
				m := sm.j.method(cl.Method)
				switch {
				case m.Oneway:
					vt.Class("method:oneway")
				case m.Void:
					vt.Class("method:void")
				default:
					vt.Class("method:value")
				}
				vt.Class(fmt.Sprintf("nargs:%d", len(m.ArgIDs)))
				vt.Class(fmt.Sprintf("nthrows:%d", min(len(m.Throws), 3)))
				vt.ClassIf(m.Inherited, "inherited_method")
				vt.ClassIf(m.CrossFile, "inherited_from_included_file")
				if len(m.Throws) > 0 {
					throws = true
				}
			}
			vt.ClassIf(sm.def.Extends != nil, "service_with_base")
			vt.ClassIf(sm.def.Extends != nil && sm.def.Extends.File != sm.def.File, "base_service_across_files")
			vt.ClassIf(stressed, "program_with_stress_names")
			vt.ClassIf(c.Gen != "go", "with_options")
			vt.Class(fmt.Sprintf("seqlen:%d", len(c.Calls)))
			for _, m := range sm.j.Methods {
				if m.Throws != nil {
					throws = true
				}
			}
			if (sm.def.Extends != nil || throws) && len(kinds) >= 2 {
				cj, _ := json.Marshal(c.Calls)
				vt.Nontrivial(base.Files[base.Main] + "|" + sm.j.Name + "|" + string(cj))
			}
			vt.Sample(map[string]interface{}{"program": p.Describe(), "service": sm.j.Name, "methods": len(sm.j.Methods), "calls": len(c.Calls), "kinds": len(kinds)})
			if o.err != nil {
				vt.Fail(rt, prop, "calls", c, "%v", o.err)
			}
		}
	})
}

func TestReplay(t *testing.T) {
	vt.Replay(t, prop, map[string]vt.Handler{
		"calls": func(raw json.RawMessage) error {
			var c callCase
			if err := vt.Decode(raw, &c); err != nil {
				return err
			}
			return judge(c).err
		},
	})
}
