package c14

import "testing"

// TestReferenceOnRepoVectors checks the reference semantics (ref_test.go)
// against the vectors of fieldmask/api_test.go TestFieldMask_Single, in white-
// and black-list mode, without running the library.
func TestReferenceOnRepoVectors(t *testing.T) {
	str := &ty{kind: tBase, name: "string"}
	val := &strct{name: "Val", fields: []*field{{id: 1, name: "A", ty: str}, {id: 2, name: "B", ty: str}}}
	vt_ := &ty{kind: tStruct, name: "Val"}
	extra := &strct{name: "ExtraInfo", fields: []*field{
		{id: 1, name: "IntMap", ty: &ty{kind: tMap, key: &ty{kind: tBase, name: "i32"}, val: vt_}},
		{id: 2, name: "StrMap", ty: &ty{kind: tMap, key: str, val: vt_}},
		{id: 3, name: "List", ty: &ty{kind: tList, val: vt_}},
		{id: 4, name: "Set", ty: &ty{kind: tSet, val: vt_}},
	}}
	env := &strct{name: "TrafficEnv", fields: []*field{{id: 0, name: "Name", ty: str}, {id: 1, name: "Open", ty: &ty{kind: tBase, name: "bool"}}, {id: 2, name: "Env", ty: str}, {id: 256, name: "Code", ty: &ty{kind: tBase, name: "i64"}}}}
	base := &strct{name: "Base", fields: []*field{
		{id: 0, name: "Addr", ty: str}, {id: 1, name: "LogID", ty: str}, {id: 2, name: "Caller", ty: str},
		{id: 5, name: "TrafficEnv", ty: &ty{kind: tStruct, name: "TrafficEnv"}},
		{id: 6, name: "Extra", ty: &ty{kind: tList, val: &ty{kind: tStruct, name: "ExtraInfo"}}},
	}}
	sc := &schema{structs: []*strct{base, extra, val, env}}
	f := func(st *strct, n string) pstep {
		for _, x := range st.fields {
			if x.name == n {
				return pstep{kind: 0, fld: x}
			}
		}
		panic(n)
	}
	ix := func(v ...int) pstep { return pstep{kind: 1, ints: v} }
	ik := func(v ...int) pstep { return pstep{kind: 2, ints: v} }
	sk := func(v ...string) pstep { return pstep{kind: 2, isStr: true, strs: v} }
	paths := [][]pstep{
		{f(base, "LogID")},
		{f(base, "TrafficEnv"), f(env, "Open")},
		{f(base, "Extra"), ix(0)},
		{f(base, "Extra"), ix(1), f(extra, "List")},
		{f(base, "Extra"), ix(1), f(extra, "Set"), ix(1), f(val, "A")},
		{f(base, "Extra"), ix(3), f(extra, "IntMap"), ik(1)},
		{f(base, "Extra"), ix(3), f(extra, "IntMap"), ik(3), f(val, "A")},
		{f(base, "Extra"), ix(3), f(extra, "StrMap"), sk("x")},
		{f(base, "Extra"), ix(3), f(extra, "StrMap"), sk("y"), f(val, "A")},
	}
	want := []string{"$.LogID", "$.TrafficEnv.Open", "$.Extra[0]", "$.Extra[1].List", "$.Extra[1].Set[1].A", "$.Extra[3].IntMap{1}", "$.Extra[3].IntMap{3}.A", `$.Extra[3].StrMap{"x"}`, `$.Extra[3].StrMap{"y"}.A`}
	rootShape := shape{kind: kStruct, st: base}
	root := newRnode(kStruct)
	for i, p := range paths {
		if renderPath(p) != want[i] {
			t.Fatalf("render %q != %q", renderPath(p), want[i])
		}
		if root.conflicts(p) {
			t.Fatalf("conflict on %s", want[i])
		}
		root.insert(sc, rootShape, p)
	}
	F := func(i int) qkey { return qkey{K: "f", I: i} }
	I := func(i int) qkey { return qkey{K: "i", I: i} }
	S := func(s string) qkey { return qkey{K: "s", S: s} }
	in := [][]qkey{{F(1)}, {F(5), F(1)}, {F(6), I(0)}, {F(6), I(1), F(3)}, {F(6), I(1), F(4), I(1), F(1)}, {F(6), I(3), F(1), I(1)}, {F(6), I(3), F(1), I(3), F(1)}, {F(6), I(3), F(2), S("x")}, {F(6), I(3), F(2), S("y"), F(1)}}
	notIn := [][]qkey{{F(0)}, {F(2)}, {F(256)}, {F(5), F(0)}, {F(5), F(2)}, {F(5), F(256)}, {F(6), I(2)}, {F(6), I(1), F(1)}, {F(6), I(1), F(2)}, {F(6), I(1), F(4), I(1), F(2)}, {F(6), I(3), F(1), I(0)}, {F(6), I(3), F(1), I(2)}, {F(6), I(3), F(1), I(3), F(2)}, {F(6), I(3), F(2), S("z")}, {F(6), I(3), F(2), S("y"), F(2)}}
	check := func(black bool, qs [][]qkey, lastPass int) {
		for _, q := range qs {
			exp := walkRef(root, q, black)
			for i, e := range exp {
				w := 1
				if i == len(exp)-1 {
					w = lastPass
				}
				if e.Pass != w {
					t.Errorf("black=%v query %v step %d: reference says %d, the repository's test says %d", black, q, i, e.Pass, w)
				}
			}
		}
	}
	check(false, in, 1)
	check(false, notIn, 0)
	check(true, notIn, 1) // the repository's test swaps the two lists in black-list mode
	check(true, in, 0)
}
