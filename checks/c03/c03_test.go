// C03 — the parser is total and the AST is faithful to the source text.
package c03

import (
	"bytes"
	"encoding/json"
	"fmt"
	"os"
	"os/exec"
	"path/filepath"
	"strings"
	"testing"
	"time"

	"github.com/cloudwego/thriftgo/parser"
	"pgregory.net/rapid"

	"verif/internal/idl"
	"verif/internal/vt"
)

const prop = "C03"

func TestMain(m *testing.M) {
	if p := os.Getenv("VERIF_CHILD_PARSE"); p != "" {
		b, err := os.ReadFile(p)
		if err != nil {
			os.Exit(7)
		}
		parser.ParseString("child.thrift", string(b))
		os.Exit(0)
	}
	vt.Main(m)
}

// ---------- cases and judges (shared by rapid, native fuzzing and replay) ----------

type totalCase struct {
	Class string `json:"class"`
	Input []byte `json:"input"`
	Deep  bool   `json:"deep"` // run in a child process (a Go stack overflow cannot be recovered)
}

type parseOutcome struct {
	ast *parser.Thrift
	err error
	pan interface{}
}

func parseGuarded(name, text string, limit time.Duration) (out parseOutcome, timedOut bool) {
	ch := make(chan parseOutcome, 1)
	go func() {
		var o parseOutcome
		defer func() {
			if r := recover(); r != nil {
				o.pan = r
			}
			ch <- o
		}()
		o.ast, o.err = parser.ParseString(name, text)
	}()
	select {
	case out = <-ch:
		return out, false
	case <-time.After(limit):
		return out, true
	}
}

const watchdog = 30 * time.Second

func judgeTotal(c totalCase) error {
	if len(c.Input) > 64<<10 {
		return nil // outside the property's bound
	}
	if c.Deep {
		dir, err := os.MkdirTemp("", "c03child")
		if err != nil {
			return nil
		}
		defer os.RemoveAll(dir)
		p := filepath.Join(dir, "in.thrift")
		os.WriteFile(p, c.Input, 0o644)
		run := func() (string, error, bool) {
			cmd := exec.Command(os.Args[0], "-test.run", "^$")
			cmd.Env = append(os.Environ(), "VERIF_CHILD_PARSE="+p)
			var buf bytes.Buffer
			cmd.Stdout, cmd.Stderr = &buf, &buf
			if err := cmd.Start(); err != nil {
				return "", nil, false
			}
			done := make(chan error, 1)
			go func() { done <- cmd.Wait() }()
			select {
			case err := <-done:
				return buf.String(), err, false
			case <-time.After(watchdog):
				cmd.Process.Kill()
				<-done
				return buf.String(), nil, true
			}
		}
		out, err, to := run()
		if to {
			if _, _, to2 := run(); to2 {
				return fmt.Errorf("parser did not finish within %v (twice) on %d bytes of class %s", watchdog, len(c.Input), c.Class)
			}
			return nil
		}
		if err != nil {
			return fmt.Errorf("parser process died on %d bytes of class %s: %v\n%s", len(c.Input), c.Class, err, vt.Truncate(out, 1500))
		}
		return nil
	}
	o, to := parseGuarded("t.thrift", string(c.Input), watchdog)
	if to {
		// confirm in a second attempt before reporting
		if _, to2 := parseGuarded("t.thrift", string(c.Input), watchdog); to2 {
			return fmt.Errorf("parser did not finish within %v (twice) on %d bytes of class %s", watchdog, len(c.Input), c.Class)
		}
		return nil
	}
	if o.pan != nil {
		return fmt.Errorf("parser panicked: %v", o.pan)
	}
	if (o.ast == nil) == (o.err == nil) {
		return fmt.Errorf("parser returned ast=%v err=%v: exactly one must be set", o.ast != nil, o.err)
	}
	return nil
}

type fidelityCase struct {
	Filename string         `json:"filename"`
	Text     string         `json:"text"`
	Expected *parser.Thrift `json:"expected"`
}

var ignoreComments = map[string]bool{"ReservedComments": true}

func judgeFidelity(c fidelityCase) error {
	o, to := parseGuarded(c.Filename, c.Text, watchdog)
	if to {
		return fmt.Errorf("parser did not finish within %v", watchdog)
	}
	if o.pan != nil {
		return fmt.Errorf("parser panicked on a grammatical document: %v", o.pan)
	}
	if o.err != nil {
		return fmt.Errorf("grammatical document rejected: %v", o.err)
	}
	if d := idl.Diff(c.Expected, o.ast, ignoreComments); d != "" {
		return fmt.Errorf("AST differs from the document (expected vs parsed) at %s", d)
	}
	return nil
}

type layoutCase struct {
	TextA string `json:"text_a"`
	TextB string `json:"text_b"`
}

func judgeLayout(c layoutCase) error {
	a, to := parseGuarded("l.thrift", c.TextA, watchdog)
	b, to2 := parseGuarded("l.thrift", c.TextB, watchdog)
	if to || to2 {
		return fmt.Errorf("parser did not finish within %v", watchdog)
	}
	if a.pan != nil || b.pan != nil {
		return fmt.Errorf("parser panicked: %v / %v", a.pan, b.pan)
	}
	if (a.err == nil) != (b.err == nil) {
		return fmt.Errorf("one layout is accepted, the other rejected: errA=%v errB=%v", a.err, b.err)
	}
	if a.err != nil {
		return fmt.Errorf("both layouts of a grammatical document rejected: %v", a.err)
	}
	if d := idl.Diff(a.ast, b.ast, ignoreComments); d != "" {
		return fmt.Errorf("AST depends on layout (layout A vs layout B) at %s", d)
	}
	return nil
}

// ---------- generators ----------

// cfg returns the model configuration; shapes behind known findings are
// excluded (and counted) so the search continues behind them.
func cfg() idl.Cfg {
	c := idl.Full()
	c.MaxFiles = 2
	if vt.Known(prop, "double-exponent") {
		c.ExpDoubles = false
		vt.Excluded("double-exponent")
	}
	if vt.Known(prop, "hex-field-id") {
		c.HexIDs = false
		vt.Excluded("hex-field-id")
	}
	return c
}

func kinds(f *idl.File) (n int, k int) {
	seen := map[idl.Kind]bool{}
	for _, d := range f.Defs {
		seen[d.Kind] = true
	}
	return len(f.Defs), len(seen)
}

func TestFidelity(t *testing.T) {
	rapid.Check(t, func(rt *rapid.T) {
		p := idl.Gen(rt, cfg())
		f := p.Files[rapid.IntRange(0, len(p.Files)-1).Draw(rt, "file")]
		lay := idl.NewLayout(rt)
		text := idl.RenderFile(f, lay)
		c := fidelityCase{Filename: f.Path, Text: text, Expected: idl.ExpectedAST(f, f.Path)}
		vt.Eval()
		nd, nk := kinds(f)
		nsep := 0
		for _, v := range lay.Seps {
			if v > 0 {
				nsep++
			}
		}
		vt.ClassIf(nd >= 5, "defs>=5")
		vt.ClassIf(nsep >= 2, "separator_styles>=2")
		vt.ClassIf(lay.InnerComm > 0, "comment_inside_definition")
		vt.ClassIf(lay.SingleQ > 0, "single_quoted_literal")
		vt.ClassIf(lay.Tight > 0, "token_boundary_without_whitespace")
		vt.ClassIf(strings.Contains(text, "0x") || strings.Contains(text, "0o"), "hex_or_octal_spelling")
		vt.ClassIf(strings.Contains(text, "\\"), "backslash_in_literal")
		if nd >= 5 && nk >= 3 && nsep >= 2 && lay.InnerComm > 0 {
			vt.Nontrivial(text)
		}
		vt.Sample(map[string]interface{}{"test": "fidelity", "text": vt.Truncate(text, 600), "layout": lay.Summary()})
		if err := judgeFidelity(c); err != nil {
			vt.Fail(rt, prop, "fidelity", c, "%v", err)
		}
	})
}

func TestLayoutIndependence(t *testing.T) {
	rapid.Check(t, func(rt *rapid.T) {
		p := idl.Gen(rt, cfg())
		f := p.Files[rapid.IntRange(0, len(p.Files)-1).Draw(rt, "file")]
		la, lb := idl.NewLayout(rt), idl.NewLayout(rt)
		c := layoutCase{TextA: idl.RenderFile(f, la), TextB: idl.RenderFile(f, lb)}
		vt.Eval()
		nd, nk := kinds(f)
		if nd >= 5 && nk >= 3 && la.InnerComm+lb.InnerComm > 0 && c.TextA != c.TextB {
			vt.Nontrivial(c.TextA + "\x00" + c.TextB)
		}
		vt.Class("layout_pairs")
		if err := judgeLayout(c); err != nil {
			vt.Fail(rt, prop, "layout", c, "%v", err)
		}
	})
}

var soupTokens = []string{
	"include", "cpp_include", "namespace", "const", "typedef", "enum", "struct", "union", "exception", "service", "extends", "throws", "oneway", "void",
	"required", "optional", "bool", "byte", "i8", "i16", "i32", "i64", "double", "string", "binary", "map", "set", "list", "cpp_type",
	"{", "}", "(", ")", "[", "]", "<", ">", ",", ";", ":", "=", "*", ".", "\"", "'", "\\", "\\\"", "/*", "*/", "//", "#", "\n", "\r", "\t", " ",
	"0", "1", "-1", "+5", "0x", "0x1F", "0xZZ", "0o7", "0o9", "1.5", ".5", "5.", "1e5", "1e", "1.0e+", "99999999999999999999", "-9223372036854775808",
	"A", "a.b", "a.b.c", "T1", "_x", "go", "x.", "true", "false", "\"lit\"", "'lit'", "\"a\\\"b\"", "k=\"v\"", "1:", "-1:", "0x10:", "é", "\x00", "\xff",
}

func genTotalCase(rt *rapid.T) totalCase {
	switch rapid.IntRange(0, 9).Draw(rt, "class") {
	case 0:
		return totalCase{Class: "bytes", Input: rapid.SliceOfN(rapid.Byte(), 0, 300).Draw(rt, "bytes")}
	case 1, 2, 3:
		n := rapid.IntRange(0, 60).Draw(rt, "ntok")
		var b strings.Builder
		for i := 0; i < n; i++ {
			b.WriteString(rapid.SampledFrom(soupTokens).Draw(rt, "tok"))
			if rapid.IntRange(0, 3).Draw(rt, "glue") > 0 {
				b.WriteByte(' ')
			}
		}
		return totalCase{Class: "token_soup", Input: []byte(b.String())}
	case 4:
		// deep nesting: a non-recoverable stack overflow would kill the process, so run it in a child
		depth := rapid.SampledFrom([]int{50, 1000, 5000, 20000}).Draw(rt, "depth")
		var s string
		switch rapid.IntRange(0, 3).Draw(rt, "deepshape") {
		case 0:
			s = "const list<i32> x = " + strings.Repeat("[", depth) + strings.Repeat("]", depth/2)
		case 1:
			s = "typedef " + strings.Repeat("list<", depth) + "i32" + strings.Repeat(">", depth) + " T"
		case 2:
			s = "const map<i32,i32> x = " + strings.Repeat("{1:", depth) + "1" + strings.Repeat("}", depth)
		default:
			s = "struct S { 1: i32 a (" + strings.Repeat("k = \"v\", ", depth) + ") }"
		}
		if len(s) > 64<<10 {
			s = s[:64<<10]
		}
		return totalCase{Class: "deep_nesting", Input: []byte(s), Deep: true}
	default:
		// a valid document with a few byte- or token-level edits
		p := idl.Gen(rt, cfg())
		text := []byte(idl.RenderFile(p.Files[0], idl.NewLayout(rt)))
		ne := rapid.IntRange(1, 3).Draw(rt, "nedits")
		for i := 0; i < ne && len(text) > 0; i++ {
			pos := rapid.IntRange(0, len(text)-1).Draw(rt, "pos")
			ln := rapid.IntRange(1, 12).Draw(rt, "len")
			if pos+ln > len(text) {
				ln = len(text) - pos
			}
			switch rapid.IntRange(0, 4).Draw(rt, "edit") {
			case 0: // delete
				text = append(text[:pos:pos], text[pos+ln:]...)
			case 1: // duplicate
				seg := append([]byte{}, text[pos:pos+ln]...)
				text = append(text[:pos:pos], append(seg, text[pos:]...)...)
			case 2: // insert a token
				tok := rapid.SampledFrom(soupTokens).Draw(rt, "ins")
				text = append(text[:pos:pos], append([]byte(tok), text[pos:]...)...)
			case 3: // truncate
				text = text[:pos]
			default: // overwrite one byte
				text[pos] = rapid.Byte().Draw(rt, "b")
			}
		}
		return totalCase{Class: "edited_valid_document", Input: text}
	}
}

func TestTotality(t *testing.T) {
	rapid.Check(t, func(rt *rapid.T) {
		c := genTotalCase(rt)
		vt.Eval()
		vt.Class("totality:" + c.Class)
		if c.Class != "bytes" && len(c.Input) > 20 {
			vt.Nontrivial(string(c.Input))
		}
		if len(c.Input) > 0 && rapid.IntRange(0, 50).Draw(rt, "sample") == 0 {
			vt.Sample(map[string]interface{}{"test": "totality", "class": c.Class, "input": vt.Truncate(string(c.Input), 300)})
		}
		if err := judgeTotal(c); err != nil {
			vt.Fail(rt, prop, "totality", c, "%v", err)
		}
	})
}

// FuzzParse is the coverage-guided form of the totality check (thorough tier).
func FuzzParse(f *testing.F) {
	f.Add([]byte(""))
	f.Add([]byte("struct S { 1: required i32 a = 1 (k = \"v\"), }"))
	f.Add([]byte("namespace go a.b\ninclude \"x.thrift\"\nconst map<string, list<i32>> m = {\"a\": [1, 2]}\nenum E { A = 1, B }\nservice S extends x.B { oneway void f(1: i32 a) throws (1: x.E e) }"))
	if fs, err := filepath.Glob(filepath.Join(vt.Repo(), "parser", "testdata", "*.thrift")); err == nil {
		for _, p := range fs {
			if b, err := os.ReadFile(p); err == nil && len(b) < 16<<10 {
				f.Add(b)
			}
		}
	}
	f.Fuzz(func(t *testing.T, in []byte) {
		c := totalCase{Class: "native_fuzz", Input: in}
		if err := judgeTotal(c); err != nil {
			vt.Fail(t, prop, "totality", c, "%v", err)
		}
	})
}

func TestReplay(t *testing.T) {
	vt.Replay(t, prop, map[string]vt.Handler{
		"totality": func(raw json.RawMessage) error {
			var c totalCase
			if err := vt.Decode(raw, &c); err != nil {
				return err
			}
			return judgeTotal(c)
		},
		"fidelity": func(raw json.RawMessage) error {
			var c fidelityCase
			if err := vt.Decode(raw, &c); err != nil {
				return err
			}
			return judgeFidelity(c)
		},
		"layout": func(raw json.RawMessage) error {
			var c layoutCase
			if err := vt.Decode(raw, &c); err != nil {
				return err
			}
			return judgeLayout(c)
		},
	})
}
