package idl

// Reference closure over the model (used by C16): which type definitions does
// a set of written types need?  Computed from the model's pointers alone.

// TypeSeed is a written type expression together with the file it is written in.
type TypeSeed struct {
	From *File
	T    *Type
}

// ReachOpt switches single kinds of edges off, to find out through which kind
// of edge a definition is reached ("kept only through a typedef", ...).
type ReachOpt struct {
	NoTypedef   bool // do not go from a typedef to its target
	NoContainer bool // do not descend into container key / element types
	NoCross     bool // do not follow a name written in one file that denotes a definition of another file
}

// Reach returns the least set of type definitions (typedefs, enums,
// struct-likes) that contains every definition named by the seed types, every
// seed definition, and is closed under: typedef target, field types of
// struct-likes, container key and element types.
func Reach(types []TypeSeed, defs []*Def, o ReachOpt) map[*Def]bool {
	seen := map[*Def]bool{}
	var visitType func(from *File, t *Type)
	var visitDef func(d *Def)
	visitType = func(from *File, t *Type) {
		if t == nil {
			return
		}
		if t.Ref != nil {
			if o.NoCross && t.Ref.File != from {
				return
			}
			visitDef(t.Ref)
			return
		}
		if o.NoContainer {
			return
		}
		visitType(from, t.Key)
		visitType(from, t.Elem)
	}
	visitDef = func(d *Def) {
		if d == nil || seen[d] {
			return
		}
		seen[d] = true
		switch {
		case d.Kind == KTypedef:
			if !o.NoTypedef {
				visitType(d.File, d.Type)
			}
		case d.Kind.IsStructLike():
			for _, f := range d.Fields {
				visitType(d.File, f.Type)
			}
		}
	}
	for _, s := range types {
		visitType(s.From, s.T)
	}
	for _, d := range defs {
		visitDef(d)
	}
	return seen
}

// DirectRefs calls fn for every definition named directly in the written type
// expression (container arguments included, nothing followed).
func DirectRefs(t *Type, fn func(*Def)) {
	if t == nil {
		return
	}
	if t.Ref != nil {
		fn(t.Ref)
		return
	}
	DirectRefs(t.Key, fn)
	DirectRefs(t.Elem, fn)
}

// ReachableFiles returns the files reachable from the main file through
// include statements, main file first, in discovery order.
func (p *Program) ReachableFiles() []*File {
	var out []*File
	seen := map[*File]bool{}
	var walk func(f *File)
	walk = func(f *File) {
		if seen[f] {
			return
		}
		seen[f] = true
		out = append(out, f)
		for _, g := range f.Includes {
			walk(g)
		}
	}
	walk(p.Files[0])
	return out
}

// ServiceChain returns s, its base service, the base of that, ...
func ServiceChain(s *Def) []*Def {
	var out []*Def
	seen := map[*Def]bool{}
	for d := s; d != nil && !seen[d]; d = d.Extends {
		seen[d] = true
		out = append(out, d)
	}
	return out
}

// KnownRejectShapes reports whether the program has one of the input shapes on
// which the front end or the Go backend is known to fail on a valid program
// (listed findings of C05 and C06):
//   - an identifier inside a literal of a struct that is defined in another
//     file than the one that writes the literal (looked up in the wrong file);
//   - a constant naming an enum member through a typedef chain that crosses
//     more file boundaries than a binding can express.
func KnownRejectShapes(p *Program) (foreignStructLitIdent, enumViaTypedefFar bool) {
	var hasIdent func(v *Value) bool
	hasIdent = func(v *Value) bool {
		if v == nil {
			return false
		}
		if v.Kind == VIdent && !v.IsBoolKw {
			return true
		}
		for _, e := range v.List {
			if hasIdent(e) {
				return true
			}
		}
		for _, k := range v.Keys {
			if hasIdent(k) {
				return true
			}
		}
		return false
	}
	var walk func(file *File, t *Type, v *Value, foreign bool, depth int)
	walk = func(file *File, t *Type, v *Value, foreign bool, depth int) {
		if t == nil || v == nil || depth > 40 {
			return
		}
		// a container literal whose declared type is a typedef'd container of another file is
		// rejected when it contains identifiers (the restriction that came with the repair of
		// C01 typedef-container-literal): counted with the first shape
		if (v.Kind == VList || v.Kind == VMap) && t.Ref != nil && t.Ref.Kind == KTypedef {
			last := t.Ref // the typedef whose target is the container itself
			for last.Type != nil && last.Type.Ref != nil && last.Type.Ref.Kind == KTypedef {
				last = last.Type.Ref
			}
			if c := t.FinalCat(); (c == "list" || c == "set" || c == "map") && last.File != file && hasIdent(v) {
				foreignStructLitIdent = true
			}
		}
		if v.Kind == VIdent && !v.IsBoolKw {
			if foreign {
				foreignStructLitIdent = true
			}
			if v.Via != nil && viaFar(file, v.Via) {
				enumViaTypedefFar = true
			}
			return
		}
		ft := t.Final()
		switch {
		case ft.Ref != nil && ft.Ref.Kind.IsStructLike():
			if v.Kind != VMap {
				return
			}
			inner := foreign || ft.Ref.File != file
			for i, k := range v.Keys {
				if i >= len(v.List) || k == nil || k.Kind != VLit {
					continue
				}
				for _, fl := range ft.Ref.Fields {
					if fl.Name == k.Lit.Text() {
						walk(file, fl.Type, v.List[i], inner, depth+1)
					}
				}
			}
		case ft.Base == "list" || ft.Base == "set":
			for _, e := range v.List {
				walk(file, ft.Elem, e, foreign, depth+1)
			}
		case ft.Base == "map":
			for i, k := range v.Keys {
				walk(file, ft.Key, k, foreign, depth+1)
				if i < len(v.List) {
					walk(file, ft.Elem, v.List[i], foreign, depth+1)
				}
			}
		}
	}
	for _, f := range p.Files {
		for _, d := range f.Defs {
			if d.Kind == KConst {
				walk(f, d.Type, d.Value, false, 0)
			}
			for _, fl := range d.Fields {
				walk(f, fl.Type, fl.Default, false, 0)
			}
			for _, fn := range d.Funcs {
				for _, fl := range fn.Args {
					walk(f, fl.Type, fl.Default, false, 0)
				}
				for _, fl := range fn.Throws {
					walk(f, fl.Type, fl.Default, false, 0)
				}
			}
		}
	}
	return
}
