package c16

import (
	"fmt"
	"os"
	"sort"
	"testing"

	"github.com/cloudwego/thriftgo/parser"
	"github.com/cloudwego/thriftgo/semantic"
	"github.com/cloudwego/thriftgo/tool/trimmer/trim"
)

func xfront(main string, files map[string]string) (*parser.Thrift, error) {
	ast, err := parser.ParseBatchString(main, files, nil)
	if err != nil {
		return nil, err
	}
	if _, err = semantic.NewChecker(semantic.Options{FixWarnings: true}).CheckAll(ast); err != nil {
		return nil, err
	}
	if err = semantic.ResolveSymbols(ast); err != nil {
		return nil, err
	}
	return ast, nil
}

func show(t *parser.Thrift, seen map[string]bool, ind string) {
	fmt.Printf("%sFILE %s\n", ind, t.Filename)
	if seen[t.Filename] {
		return
	}
	seen[t.Filename] = true
	var n []string
	for _, s := range t.GetStructLikes() {
		n = append(n, s.Category+" "+s.Name)
	}
	for _, s := range t.Enums {
		n = append(n, "enum "+s.Name)
	}
	for _, s := range t.Typedefs {
		n = append(n, "typedef "+s.Alias)
	}
	for _, s := range t.Constants {
		n = append(n, "const "+s.Name)
	}
	for _, s := range t.Services {
		x := "service " + s.Name + " ext=" + s.Extends + " ["
		for _, f := range s.Functions {
			x += f.Name + " "
		}
		n = append(n, x+"]")
	}
	sort.Strings(n)
	for _, x := range n {
		fmt.Printf("%s  %s\n", ind, x)
	}
	for _, inc := range t.Includes {
		show(inc.Reference, seen, ind+"    ")
	}
}

func TestExplore(t *testing.T) {
	if os.Getenv("C16_EXPLORE") == "" {
		t.Skip()
	}
	d, _ := os.MkdirTemp("", "x")
	os.Chdir(d)
	type ex struct {
		name  string
		files map[string]string
		m     []string
		pres  []string
	}
	exs := []ex{
		{"base-in-include-same-file", map[string]string{
			"main.thrift": "include \"inc.thrift\"\nservice A extends inc.B { void a() }\n",
			"inc.thrift":  "struct S1 {}\nstruct S2 {}\nservice Base { S1 x() }\nservice B extends Base { S2 y() }\nservice Other { void o() }",
		}, nil, nil},
		{"preserve-comment", map[string]string{
			"main.thrift": "// @preserve\nstruct P { 1: Q q }\nstruct Q {}\nstruct R {}\n#@Preserve  \nunion U {}\n/* @preserve */ struct V {}\n// @preserve x\nstruct W{}\nstruct X{} // @preserve\nstruct Y{}\nservice A { void a() }\n",
		}, nil, nil},
		{"enum-only-indirect", map[string]string{
			"main.thrift": "include \"a.thrift\"\nservice A { void a() }\n",
			"a.thrift":    "include \"b.thrift\"\nstruct S1 {}\n",
			"b.thrift":    "enum E {X}",
		}, nil, nil},
		{"m-inherited", map[string]string{
			"main.thrift": "include \"inc.thrift\"\nstruct M1{}\nstruct M2{}\nservice A extends inc.B { M1 a() M2 a2() }\n",
			"inc.thrift":  "struct S1 {}\nstruct S2 {}\nservice Base { S1 x() }\nservice B extends Base { S2 y() void z() }",
		}, []string{"A.x"}, nil},
		{"m-own", map[string]string{
			"main.thrift": "include \"inc.thrift\"\nstruct M1{}\nstruct M2{}\nservice A extends inc.B { M1 a() M2 a2() }\n",
			"inc.thrift":  "struct S1 {}\nstruct S2 {}\nservice Base { S1 x() }\nservice B extends Base { S2 y() void z() }",
		}, []string{"^A\\.a$"}, nil},
		{"m-mid", map[string]string{
			"main.thrift": "include \"inc.thrift\"\nstruct M1{}\nstruct M2{}\nservice A extends inc.B { M1 a() M2 a2() }\n",
			"inc.thrift":  "struct S1 {}\nstruct S2 {}\nservice Base { S1 x() }\nservice B extends Base { S2 y() void z() }",
		}, []string{"^B\\.y$"}, nil},
	}
	exs = append(exs,
		ex{"m-shared-chain", map[string]string{
			"main.thrift": "service C { void c() }\nservice B extends C { }\nservice S1 extends B { }\n",
		}, []string{"^S1\\.c$"}, nil},
		ex{"m-shared-chain2", map[string]string{
			"main.thrift": "include \"inc.thrift\"\nservice S1 extends inc.B { }\nservice S2 extends inc.B { void s2() }\n",
			"inc.thrift": "service C { void c() }\nservice B extends C { }\n",
		}, []string{"^S1\\.c$", "^S2\\.s2$"}, nil},
		ex{"list-preserved", map[string]string{
			"main.thrift": "include \"inc.thrift\"\nservice S1 { }\n",
			"inc.thrift": "include \"x.thrift\"\nstruct P {1: list<x.Q> q}\nstruct R{}",
			"x.thrift": "struct Q {}\nstruct R2{}",
		}, nil, []string{"P"}},
	)
	for _, e := range exs {
		fmt.Println("=====", e.name, e.m, e.pres)
		ast, err := xfront("main.thrift", e.files)
		if err != nil {
			fmt.Println("front:", err)
			continue
		}
		_, err = trim.TrimAST(&trim.TrimASTArg{Ast: ast, TrimMethods: e.m, PreserveStructs: e.pres})
		fmt.Println("err:", err)
		show(ast, map[string]bool{}, "")
	}
}
