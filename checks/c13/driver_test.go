package c13

import "verif/internal/drv"

// maskSrc adds the operations `maskwrite` and `maskread` to the driver.
//
// request: {type, value | hex, paths []string, black bool, nomask bool, at *int}
//   - the type descriptor comes from the generated object itself
//     (GetTypeDescriptor, generated under with_reflection);
//   - the mask is built with fieldmask.NewFieldMask / Options{BlackListMode}
//     exactly as fieldmask/README.md shows; construction errors are data
//     (`maskerr`), a panic inside the construction is `maskpanic`;
//   - `nomask` attaches a nil mask (Set_FieldMask(nil));
//   - `at` (a field id of the root) attaches the mask to the struct held by
//     that field instead of the root (field_mask_halfway);
//   - maskwrite: generated Write over TBinaryProtocol/TMemoryBuffer → hex, err;
//   - maskread: generated Read of the given bytes under the mask → value, err.
//
//   - maskhistory: {type, value, steps: [{op: write|read, paths, black, nomask, hex}]}
//     builds ONE object and performs the steps on it in order, each under its
//     own mask (attached to the root just before the step): write → hex, err;
//     read (of the given bytes, into the same object) → err, left, value.
//     The result is `steps`, one entry per performed step (it stops after a
//     step that fails).
//
// Panics of the generated code are reported as `panic`.
const maskSrc = `package vdriver

import (
	"encoding/hex"
	"fmt"
	"reflect"
	"strconv"
	"strings"

	"github.com/apache/thrift/lib/go/thrift"
	"github.com/cloudwego/thriftgo/fieldmask"
	"github.com/cloudwego/thriftgo/thrift_reflection"
)

func xmaskTarget(root reflect.Value, req map[string]interface{}) (reflect.Value, string) {
	at, ok := req["at"]
	if !ok || at == nil {
		return root, ""
	}
	id := int(at.(float64))
	st := root.Elem()
	for i := 0; i < st.NumField(); i++ {
		tag, ok := st.Type().Field(i).Tag.Lookup("thrift")
		if !ok {
			continue
		}
		parts := strings.Split(tag, ",")
		if len(parts) < 2 || parts[1] != strconv.Itoa(id) {
			continue
		}
		f := st.Field(i)
		if f.Kind() != reflect.Ptr || f.IsNil() {
			return reflect.Value{}, "field " + parts[0] + " holds no struct object"
		}
		return f, ""
	}
	return reflect.Value{}, "no field with id " + strconv.Itoa(id)
}

// xmaskAttach builds the mask for the target object and attaches it.
func xmaskAttach(root reflect.Value, req map[string]interface{}, resp map[string]interface{}) bool {
	tgt, why := xmaskTarget(root, req)
	if why != "" {
		resp["harness"] = why
		return false
	}
	set := tgt.MethodByName("Set_FieldMask")
	if !set.IsValid() {
		resp["harness"] = fmt.Sprintf("%s has no Set_FieldMask", tgt.Type())
		return false
	}
	if req["nomask"] == true {
		set.Call([]reflect.Value{reflect.ValueOf((*fieldmask.FieldMask)(nil))})
		return true
	}
	gd := tgt.MethodByName("GetTypeDescriptor")
	if !gd.IsValid() {
		resp["harness"] = fmt.Sprintf("%s has no GetTypeDescriptor", tgt.Type())
		return false
	}
	var paths []string
	if ps, ok := req["paths"].([]interface{}); ok {
		for _, p := range ps {
			s, _ := p.(string)
			paths = append(paths, s)
		}
	}
	var fm *fieldmask.FieldMask
	var err error
	func() {
		defer func() {
			if r := recover(); r != nil {
				resp["maskpanic"] = fmt.Sprint(r)
			}
		}()
		desc := gd.Call(nil)[0].Interface().(*thrift_reflection.TypeDescriptor)
		if req["black"] == true {
			fm, err = fieldmask.Options{BlackListMode: true}.NewFieldMask(desc, paths...)
		} else {
			fm, err = fieldmask.NewFieldMask(desc, paths...)
		}
	}()
	if _, bad := resp["maskpanic"]; bad {
		return false
	}
	if err != nil {
		resp["maskerr"] = err.Error()
		return false
	}
	set.Call([]reflect.Value{reflect.ValueOf(fm)})
	return true
}

func init() {
	Hooks["maskwrite"] = func(req map[string]interface{}) (resp map[string]interface{}) {
		resp = map[string]interface{}{}
		defer func() {
			if r := recover(); r != nil {
				resp["panic"] = fmt.Sprint(r)
			}
		}()
		k, _ := req["type"].(string)
		e := Lookup(k)
		if e == nil {
			resp["harness"] = "unknown type " + k
			return
		}
		obj, err := Decode(req["value"], e.Type())
		if err != nil {
			resp["harness"] = err.Error()
			return
		}
		if !xmaskAttach(obj, req, resp) {
			return
		}
		w, ok := obj.Interface().(interface {
			Write(oprot thrift.TProtocol) error
		})
		if !ok {
			resp["harness"] = "no Write(thrift.TProtocol)"
			return
		}
		buf := thrift.NewTMemoryBuffer()
		prot := thrift.NewTBinaryProtocol(buf, true, true)
		werr := w.Write(prot)
		resp["hex"] = hex.EncodeToString(buf.Bytes())
		if werr != nil {
			resp["err"] = werr.Error()
		} else {
			resp["err"] = nil
		}
		return
	}
	Hooks["maskhistory"] = func(req map[string]interface{}) (resp map[string]interface{}) {
		resp = map[string]interface{}{}
		k, _ := req["type"].(string)
		e := Lookup(k)
		if e == nil {
			resp["harness"] = "unknown type " + k
			return
		}
		obj, err := Decode(req["value"], e.Type())
		if err != nil {
			resp["harness"] = err.Error()
			return
		}
		steps, _ := req["steps"].([]interface{})
		out := []interface{}{}
		for _, sr := range steps {
			step, _ := sr.(map[string]interface{})
			r := map[string]interface{}{}
			func() {
				defer func() {
					if x := recover(); x != nil {
						r["panic"] = fmt.Sprint(x)
					}
				}()
				if !xmaskAttach(obj, step, r) {
					return
				}
				buf := thrift.NewTMemoryBuffer()
				prot := thrift.NewTBinaryProtocol(buf, true, true)
				if step["op"] == "read" {
					hx, _ := step["hex"].(string)
					b, _ := hex.DecodeString(hx)
					buf.Write(b)
					rerr := obj.Interface().(interface {
						Read(iprot thrift.TProtocol) error
					}).Read(prot)
					if rerr != nil {
						r["err"] = rerr.Error()
					} else {
						r["err"] = nil
						r["left"] = buf.Len()
					}
					r["value"] = Dump(obj)
					return
				}
				werr := obj.Interface().(interface {
					Write(oprot thrift.TProtocol) error
				}).Write(prot)
				r["hex"] = hex.EncodeToString(buf.Bytes())
				if werr != nil {
					r["err"] = werr.Error()
				} else {
					r["err"] = nil
				}
			}()
			out = append(out, r)
			if h, bad := r["harness"]; bad {
				resp["harness"] = h
				return
			}
			if r["panic"] != nil || r["err"] != nil || r["maskerr"] != nil || r["maskpanic"] != nil {
				break
			}
		}
		resp["steps"] = out
		return
	}
	Hooks["maskread"] = func(req map[string]interface{}) (resp map[string]interface{}) {
		resp = map[string]interface{}{}
		defer func() {
			if r := recover(); r != nil {
				resp["panic"] = fmt.Sprint(r)
			}
		}()
		k, _ := req["type"].(string)
		e := Lookup(k)
		if e == nil {
			resp["harness"] = "unknown type " + k
			return
		}
		hx, _ := req["hex"].(string)
		b, _ := hex.DecodeString(hx)
		obj := reflect.ValueOf(e.New())
		if !xmaskAttach(obj, req, resp) {
			return
		}
		r, ok := obj.Interface().(interface {
			Read(iprot thrift.TProtocol) error
		})
		if !ok {
			resp["harness"] = "no Read(thrift.TProtocol)"
			return
		}
		buf := thrift.NewTMemoryBuffer()
		buf.Write(b)
		prot := thrift.NewTBinaryProtocol(buf, true, true)
		rerr := r.Read(prot)
		if rerr != nil {
			resp["err"] = rerr.Error()
		} else {
			resp["err"] = nil
			resp["left"] = buf.Len()
		}
		resp["value"] = Dump(obj)
		return
	}
}
`

func extra(m *drv.Module) error {
	if m.Extra == nil {
		m.Extra = map[string]string{}
	}
	m.Extra["vdriver/x_mask.go"] = maskSrc
	return nil
}
