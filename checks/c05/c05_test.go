// C05 — symbol resolution binds every reference to the definition the IDL names.
package c05

import (
	"encoding/json"
	"fmt"
	"sort"
	"strings"
	"testing"

	"github.com/cloudwego/thriftgo/parser"
	"github.com/cloudwego/thriftgo/semantic"
	"pgregory.net/rapid"

	"verif/internal/idl"
	"verif/internal/vt"
)

const prop = "C05"

func TestMain(m *testing.M) { vt.Main(m) }

type resolveCase struct {
	Main   string              `json:"main"`
	Files  map[string]string   `json:"files"`
	Expect map[string]idl.Fact `json:"expect"`
}

// analyse runs the real front end: parse all files, CheckAll, ResolveSymbols.
func analyse(main string, files map[string]string) (ast *parser.Thrift, err error) {
	defer func() {
		if r := recover(); r != nil {
			err = fmt.Errorf("front end panicked: %v", r)
		}
	}()
	ast, err = parser.ParseBatchString(main, files, nil)
	if err != nil {
		return nil, fmt.Errorf("parse: %w", err)
	}
	if _, err = semantic.NewChecker(semantic.Options{FixWarnings: true}).CheckAll(ast); err != nil {
		return nil, fmt.Errorf("check: %w", err)
	}
	if err = semantic.ResolveSymbols(ast); err != nil {
		return nil, fmt.Errorf("resolve: %w", err)
	}
	return ast, nil
}

func judgeResolve(c resolveCase) error {
	ast, err := analyse(c.Main, c.Files)
	if err != nil {
		return fmt.Errorf("valid program rejected: %v", err)
	}
	got := idl.ActualFacts(ast)
	if d := idl.DiffFacts(c.Expect, got, 6); d != "" {
		return fmt.Errorf("resolution results differ from what the IDL names:\n%s", d)
	}
	return nil
}

type orderCase struct {
	Main   string            `json:"main"`
	FilesA map[string]string `json:"files_a"`
	FilesB map[string]string `json:"files_b"` // same definitions, different order within each file
}

func judgeOrder(c orderCase) error {
	a, errA := analyse(c.Main, c.FilesA)
	b, errB := analyse(c.Main, c.FilesB)
	if (errA == nil) != (errB == nil) {
		return fmt.Errorf("acceptance depends on definition order: errA=%v errB=%v", errA, errB)
	}
	if errA != nil {
		return fmt.Errorf("valid program rejected: %v", errA)
	}
	// facts are keyed by definition name, so they are order independent by construction of the keys
	fa, fb := idl.ActualFacts(a), idl.ActualFacts(b)
	if d := idl.DiffFacts(fa, fb, 6); d != "" {
		return fmt.Errorf("resolution depends on definition order (order A vs order B):\n%s", d)
	}
	return nil
}

func cfg() idl.Cfg {
	c := idl.Full()
	c.MaxFiles = 4
	c.SameNames = true // a.ID and b.ID are different things
	c.CppStuff = false
	c.NastyLits = false
	c.RawCtl = false
	c.Comments = false
	if vt.Known(prop, "enum-via-typedef-far") {
		c.EnumViaTypedefFar = false
		vt.Excluded("enum-via-typedef-far")
	}
	return c
}

func classify(p *idl.Program, exp map[string]idl.Fact) (nontrivial bool) {
	crossChain, qualConst, viaTypedef, sameBase := false, false, false, false
	var walkT func(f *idl.File, t *idl.Type)
	walkT = func(f *idl.File, t *idl.Type) {
		if t == nil {
			return
		}
		if t.ChainLen() >= 2 {
			// does the chain cross a file boundary?
			x := t
			for x.Ref != nil && x.Ref.Kind == idl.KTypedef {
				if x.Ref.File != f {
					crossChain = true
				}
				f2 := x.Ref.File
				x = x.Ref.Type
				if x.Ref != nil && x.Ref.File != f2 {
					crossChain = true
				}
			}
		}
		walkT(f, t.Key)
		walkT(f, t.Elem)
	}
	for _, f := range p.Files {
		for _, d := range f.Defs {
			walkT(f, d.Type)
			for _, fl := range d.Fields {
				walkT(f, fl.Type)
			}
			for _, fn := range d.Funcs {
				walkT(f, fn.Ret)
				for _, a := range fn.Args {
					walkT(f, a.Type)
				}
			}
		}
		seen := map[string]bool{}
		for _, inc := range f.Includes {
			if seen[inc.Prefix()] {
				sameBase = true
			}
			seen[inc.Prefix()] = true
		}
	}
	for _, fa := range exp {
		if strings.HasPrefix(fa.Bound, "const ") || strings.HasPrefix(fa.Bound, "enum ") {
			qualConst = true // refined below
		}
	}
	for k, fa := range exp {
		if fa.Bound != "" && fa.Bound != "keyword" {
			file := k[:strings.Index(k, "|")]
			parts := strings.Fields(fa.Bound)
			if len(parts) > 1 && parts[1] != file {
				qualConst = true
			}
		}
	}
	_ = viaTypedef
	vt.ClassIf(crossChain, "typedef_chain>=2_crossing_files")
	vt.ClassIf(qualConst, "constant_identifier_reference")
	vt.ClassIf(sameBase, "two_includes_same_base_name")
	owner, kindOf, sameName, sameNameOtherKind := map[string]*idl.File{}, map[string]idl.Kind{}, false, false
	for _, f := range p.Files {
		for _, d := range f.Defs {
			if o, ok := owner[d.Name]; ok && o != f {
				sameName = true
				if kindOf[d.Name] != d.Kind {
					sameNameOtherKind = true
				}
			}
			owner[d.Name], kindOf[d.Name] = f, d.Kind
		}
	}
	vt.ClassIf(sameName, "one_global_name_in_two_files")
	vt.ClassIf(sameNameOtherKind, "one_global_name_in_two_files_different_kinds")
	vt.ClassIf(len(p.Files) >= 3, "files>=3")
	return crossChain && qualConst
}

func TestResolve(t *testing.T) {
	rapid.Check(t, func(rt *rapid.T) {
		p := idl.Gen(rt, cfg())
		c := resolveCase{Main: p.Files[0].Path, Files: p.Texts(nil), Expect: idl.ExpectedFacts(p)}
		vt.Eval()
		if classify(p, c.Expect) {
			vt.Nontrivial(texts(c.Files))
		}
		vt.Sample(map[string]interface{}{"program": p.Describe(), "facts": len(c.Expect)})
		if err := judgeResolve(c); err != nil {
			vt.Fail(rt, prop, "resolve", c, "%v", err)
		}
	})
}

func TestOrderIndependence(t *testing.T) {
	rapid.Check(t, func(rt *rapid.T) {
		p := idl.Gen(rt, cfg())
		a := p.Texts(nil)
		for _, f := range p.Files {
			if len(f.Defs) > 1 {
				f.Defs = rapid.Permutation(f.Defs).Draw(rt, "reorder")
			}
		}
		b := p.Texts(nil)
		c := orderCase{Main: p.Files[0].Path, FilesA: a, FilesB: b}
		vt.Eval()
		if texts(a) != texts(b) && len(p.Files) >= 2 {
			vt.Nontrivial(texts(a) + texts(b))
		}
		vt.Class("order_pairs")
		if err := judgeOrder(c); err != nil {
			vt.Fail(rt, prop, "order", c, "%v", err)
		}
	})
}

func texts(m map[string]string) string {
	var ks []string
	for k := range m {
		ks = append(ks, k)
	}
	sort.Strings(ks)
	var b strings.Builder
	for _, k := range ks {
		b.WriteString(k + "\x00" + m[k] + "\x00")
	}
	return b.String()
}

func TestReplay(t *testing.T) {
	vt.Replay(t, prop, map[string]vt.Handler{
		"resolve": func(raw json.RawMessage) error {
			var c resolveCase
			if err := vt.Decode(raw, &c); err != nil {
				return err
			}
			return judgeResolve(c)
		},
		"order": func(raw json.RawMessage) error {
			var c orderCase
			if err := vt.Decode(raw, &c); err != nil {
				return err
			}
			return judgeOrder(c)
		},
	})
}
