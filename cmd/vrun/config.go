package main

var checks = map[string]check{
	"C03": {
		ID: "C03", Pkg: "c03",
		Jobs: []job{
			{Run: "^TestFidelity$", Quick: 2500, QShards: 6, Thor: 60000, TShards: 14},
			{Run: "^TestLayoutIndependence$", Quick: 2000, QShards: 4, Thor: 40000, TShards: 14},
			{Run: "^TestTotality$", Quick: 4000, QShards: 6, Thor: 60000, TShards: 14},
		},
		Fuzz:   []fuzzJob{{Target: "FuzzParse", Dur: "300s"}},
		Rule:   "fidelity/layout: IDL models drawn by rapid and rendered under drawn layouts (separator, whitespace/comment at every token boundary, quote style, int/double spellings); non-trivial = document with >=5 definitions of >=3 kinds, >=2 separator styles and >=1 comment inside a definition, distinct by text. totality: raw bytes, token soups over the grammar's terminals, deep nesting (child process), valid documents with 1-3 edits; non-trivial = non-raw-bytes input longer than 20 bytes, distinct by content",
		Assume: []string{"integer spellings with a leading zero (ambiguous octal) and literals ending in a lone backslash are not generated", "names never start with 'required'/'optional' (the grammar reads those as requiredness)", "a watchdog expiry (30 s) must reproduce before it is reported"},
	},
	"C05": {
		ID: "C05", Pkg: "c05",
		Jobs: []job{
			{Run: "^TestResolve$", Quick: 1200, QShards: 8, Thor: 40000, TShards: 14},
			{Run: "^TestOrderIndependence$", Quick: 800, QShards: 6, Thor: 20000, TShards: 14},
		},
		Rule:   "multi-file IDL models drawn by rapid (1-4 files, include DAG with diamonds, same base names in different directories, typedef chains, constants in every spelling); non-trivial = program with a typedef chain of length >=2 crossing a file boundary and >=1 identifier constant reference, distinct by program text; order test: non-trivial = >=2 files and a different definition order",
		Assume: []string{"include literals are spelled so that thriftgo's lookup order (working directory first, including file's directory second) finds the intended file", "global names are unique over the whole program, so two includes with the same prefix never both define a referenced name"},
	},
}
