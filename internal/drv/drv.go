// Package drv builds, for one generated program, a scratch Go module holding
// the generated packages, the generic reflective driver and a registry file
// per package, compiles it and talks to the resulting process over JSON lines.
package drv

import (
	"bufio"
	"encoding/json"
	"fmt"
	"go/ast"
	"go/parser"
	"go/token"
	"io"
	"os"
	"os/exec"
	"path/filepath"
	"sort"
	"strconv"
	"strings"
	"time"

	"verif/internal/tg"
	"verif/internal/vt"
)

// Prefix is the import prefix of generated packages inside the scratch module.
const Prefix = "vmod/gen"

// Module is a scratch module for one program.
type Module struct {
	Root    string // module root (module vmod)
	GenDir  string // Root/gen: thriftgo's -o
	IDLDir  string
	Bin     string
	Extra   map[string]string // extra source files (relative to Root) added before building
	PkgDirs []string          // generated package directories relative to GenDir
}

const goMod = `module vmod

go 1.20

require (
	github.com/apache/thrift v0.13.0
	github.com/cloudwego/gopkg v0.2.0
	github.com/cloudwego/thriftgo v0.0.0
)

replace github.com/cloudwego/thriftgo => /repo
`

// NewModule creates the scratch module skeleton.
func NewModule() (*Module, error) {
	root, err := os.MkdirTemp("", "vmod")
	if err != nil {
		return nil, err
	}
	m := &Module{Root: root, GenDir: filepath.Join(root, "gen"), IDLDir: filepath.Join(root, "idl")}
	sum, err := os.ReadFile(filepath.Join(vt.Root(), "go.sum"))
	if err != nil {
		return nil, err
	}
	files := map[string]string{"go.mod": strings.Replace(goMod, "=> /repo", "=> "+vt.Repo(), 1), "go.sum": string(sum), "vdriver/driver.go": driverSource}
	if err := tg.WriteFiles(root, files); err != nil {
		return nil, err
	}
	return m, nil
}

// Close removes the module.
func (m *Module) Close() { os.RemoveAll(m.Root) }

// Generate writes the IDL files and runs thriftgo (-r) into the module.
// genSpec is e.g. "go" or "fastgo:gen_deep_equal"; package_prefix is added.
func (m *Module) Generate(files map[string]string, main, genSpec string) tg.Result {
	bin, err := tg.Thriftgo()
	if err != nil {
		return tg.Result{Exit: -1, Output: "harness: " + err.Error()}
	}
	if err := tg.WriteFiles(m.IDLDir, files); err != nil {
		return tg.Result{Exit: -1, Output: "harness: " + err.Error()}
	}
	if strings.Contains(genSpec, ":") {
		genSpec += ",package_prefix=" + Prefix
	} else {
		genSpec += ":package_prefix=" + Prefix
	}
	return tg.Exec(bin, m.IDLDir, nil, 60*time.Second, "-g", genSpec, "-o", m.GenDir, "-r", main)
}

// structInfo is what the syntactic registry pass learns about one generated struct type.
type structInfo struct {
	GoName  string
	IDLName string
	HasNew  bool
}

// Registry scans the generated packages and writes zz_verif.go into each: it
// registers every struct type that carries thrift tags (with the IDL name its
// own Write method passes to WriteStructBegin) and every exported top-level
// constant and variable.
func (m *Module) Registry() error {
	dirs := map[string][]string{}
	for _, rel := range tg.ListFiles(m.GenDir) {
		if strings.HasSuffix(rel, ".go") && !strings.HasSuffix(rel, "zz_verif.go") {
			d := filepath.Dir(rel)
			dirs[d] = append(dirs[d], rel)
		}
	}
	m.PkgDirs = nil
	for d := range dirs {
		m.PkgDirs = append(m.PkgDirs, d)
	}
	sort.Strings(m.PkgDirs)
	var imports []string
	for _, d := range m.PkgDirs {
		fset := token.NewFileSet()
		pkgName := ""
		structs := map[string]*structInfo{}
		var order []string
		var constNames []string
		news := map[string]bool{}
		for _, rel := range dirs[d] {
			f, err := parser.ParseFile(fset, filepath.Join(m.GenDir, rel), nil, parser.SkipObjectResolution)
			if err != nil {
				return fmt.Errorf("generated file does not parse: %v", err)
			}
			pkgName = f.Name.Name
			for _, decl := range f.Decls {
				switch x := decl.(type) {
				case *ast.GenDecl:
					for _, sp := range x.Specs {
						switch s := sp.(type) {
						case *ast.TypeSpec:
							st, ok := s.Type.(*ast.StructType)
							if !ok {
								continue
							}
							tagged := false
							for _, fl := range st.Fields.List {
								if fl.Tag != nil && strings.Contains(fl.Tag.Value, "thrift:") {
									tagged = true
								}
							}
							if tagged || len(st.Fields.List) == 0 {
								structs[s.Name.Name] = &structInfo{GoName: s.Name.Name}
								order = append(order, s.Name.Name)
							}
						case *ast.ValueSpec:
							if x.Tok != token.CONST && x.Tok != token.VAR {
								continue
							}
							for _, n := range s.Names {
								if ast.IsExported(n.Name) && !strings.HasSuffix(n.Name, "_DEFAULT") && !strings.HasPrefix(n.Name, "ThriftGoUnusedProtection") && !strings.HasPrefix(n.Name, "KitexUnusedProtection") && !strings.HasPrefix(n.Name, "GoUnusedProtection") {
									constNames = append(constNames, n.Name)
								}
							}
						}
					}
				case *ast.FuncDecl:
					if x.Recv == nil {
						if strings.HasPrefix(x.Name.Name, "New") && x.Type.Params.NumFields() == 0 && x.Type.Results.NumFields() == 1 {
							news[x.Name.Name] = true
						}
						continue
					}
					if x.Name.Name != "Write" || x.Body == nil {
						continue
					}
					recv := recvName(x)
					ast.Inspect(x.Body, func(n ast.Node) bool {
						c, ok := n.(*ast.CallExpr)
						if !ok {
							return true
						}
						sel, ok := c.Fun.(*ast.SelectorExpr)
						if !ok || sel.Sel.Name != "WriteStructBegin" || len(c.Args) != 1 {
							return true
						}
						if lit, ok := c.Args[0].(*ast.BasicLit); ok && lit.Kind == token.STRING {
							if s, err := strconv.Unquote(lit.Value); err == nil {
								if si := structs[recv]; si != nil {
									si.IDLName = s
								} else {
									structs[recv] = &structInfo{GoName: recv, IDLName: s}
								}
							}
						}
						return true
					})
				}
			}
		}
		var b strings.Builder
		fmt.Fprintf(&b, "package %s\n\nimport \"vmod/vdriver\"\n\nvar _ = vdriver.Hooks // the import is used even when nothing is registered\n\nfunc init() {\n", pkgName)
		n := 0
		for _, name := range order {
			si := structs[name]
			if si.IDLName == "" {
				continue // not a thrift struct (no Write method)
			}
			ctor := "&" + name + "{}"
			// the constructor is found by what it returns, not by a naming rule: any zero-argument New* whose result is *name
			for fn := range news {
				if returnsPtrTo(dirs[d], m.GenDir, fn, name) {
					ctor = fn + "()"
				}
			}
			fmt.Fprintf(&b, "\tvdriver.RegisterType(%q, %q, %q, func() interface{} { return %s })\n", d, name, si.IDLName, ctor)
			n++
		}
		sort.Strings(constNames)
		for _, c := range constNames {
			fmt.Fprintf(&b, "\tvdriver.RegisterConst(%q, %q, %s)\n", d, c, c)
			n++
		}
		b.WriteString("}\n")
		if err := os.WriteFile(filepath.Join(m.GenDir, d, "zz_verif.go"), []byte(b.String()), 0o644); err != nil {
			return err
		}
		imports = append(imports, Prefix+"/"+filepath.ToSlash(d))
	}
	var mb strings.Builder
	mb.WriteString("package main\n\nimport (\n\t\"vmod/vdriver\"\n")
	for _, im := range imports {
		fmt.Fprintf(&mb, "\t_ %q\n", im)
	}
	mb.WriteString(")\n\nfunc main() { vdriver.Main() }\n")
	return os.WriteFile(filepath.Join(m.Root, "main.go"), []byte(mb.String()), 0o644)
}

var ctorCache = map[string]map[string]string{}

// returnsPtrTo reports whether function fn in the package returns *typ.
func returnsPtrTo(files []string, genDir, fn, typ string) bool {
	key := genDir + "|" + filepath.Dir(files[0])
	m, ok := ctorCache[key]
	if !ok {
		m = map[string]string{}
		fset := token.NewFileSet()
		for _, rel := range files {
			f, err := parser.ParseFile(fset, filepath.Join(genDir, rel), nil, parser.SkipObjectResolution)
			if err != nil {
				continue
			}
			for _, decl := range f.Decls {
				fd, ok := decl.(*ast.FuncDecl)
				if !ok || fd.Recv != nil || fd.Type.Results.NumFields() != 1 {
					continue
				}
				if st, ok := fd.Type.Results.List[0].Type.(*ast.StarExpr); ok {
					if id, ok := st.X.(*ast.Ident); ok {
						m[fd.Name.Name] = id.Name
					}
				}
			}
		}
		if len(ctorCache) > 64 {
			ctorCache = map[string]map[string]string{}
		}
		ctorCache[key] = m
	}
	return m[fn] == typ
}

func recvName(fd *ast.FuncDecl) string {
	if fd.Recv == nil || len(fd.Recv.List) == 0 {
		return ""
	}
	t := fd.Recv.List[0].Type
	if s, ok := t.(*ast.StarExpr); ok {
		t = s.X
	}
	if id, ok := t.(*ast.Ident); ok {
		return id.Name
	}
	return ""
}

// Build compiles the module's driver binary.
func (m *Module) Build() (string, error) {
	for p, c := range m.Extra {
		if err := tg.WriteFiles(m.Root, map[string]string{p: c}); err != nil {
			return "", err
		}
	}
	m.Bin = filepath.Join(m.Root, "drv")
	cmd := exec.Command("go", "build", "-p", "2", "-o", m.Bin, ".")
	cmd.Dir = m.Root
	// few threads per build: many checks build in parallel and the go tool scales badly when oversubscribed
	cmd.Env = append(os.Environ(), "GOFLAGS=-mod=mod", "GOPROXY=off", "GOSUMDB=off", "GOTOOLCHAIN=local", "GOMAXPROCS=2")
	out, err := cmd.CombinedOutput()
	if err != nil {
		return string(out), err
	}
	return string(out), nil
}

// Proc is a running driver.
type Proc struct {
	cmd   *exec.Cmd
	in    io.WriteCloser
	out   *bufio.Reader
	Dead  bool
	Calls int
}

// Start launches the driver.
func (m *Module) Start() (*Proc, error) {
	cmd := exec.Command(m.Bin)
	cmd.Dir = m.Root
	cmd.Env = append(os.Environ(), "GOMAXPROCS=2", "GOMEMLIMIT=1GiB")
	in, err := cmd.StdinPipe()
	if err != nil {
		return nil, err
	}
	out, err := cmd.StdoutPipe()
	if err != nil {
		return nil, err
	}
	cmd.Stderr = os.Stderr
	if err := cmd.Start(); err != nil {
		return nil, err
	}
	return &Proc{cmd: cmd, in: in, out: bufio.NewReaderSize(out, 1<<20)}, nil
}

// Call sends one request and waits for the response (20 s watchdog).
func (p *Proc) Call(req map[string]interface{}) (map[string]interface{}, error) {
	if p.Dead {
		return nil, fmt.Errorf("driver is dead")
	}
	b, err := json.Marshal(req)
	if err != nil {
		return nil, err
	}
	p.Calls++
	if _, err := p.in.Write(append(b, '\n')); err != nil {
		p.Dead = true
		return nil, fmt.Errorf("driver died: %v", err)
	}
	type res struct {
		line []byte
		err  error
	}
	ch := make(chan res, 1)
	go func() {
		line, err := p.out.ReadBytes('\n')
		ch <- res{line, err}
	}()
	select {
	case r := <-ch:
		if r.err != nil {
			p.Dead = true
			return nil, fmt.Errorf("driver died: %v", r.err)
		}
		var resp map[string]interface{}
		if err := json.Unmarshal(r.line, &resp); err != nil {
			return nil, fmt.Errorf("bad driver response: %v", err)
		}
		return resp, nil
	case <-time.After(30 * time.Second):
		p.Dead = true
		p.cmd.Process.Kill()
		return nil, fmt.Errorf("driver did not answer within 30s")
	}
}

// Stop ends the driver.
func (p *Proc) Stop() {
	p.in.Close()
	done := make(chan struct{})
	go func() { p.cmd.Wait(); close(done) }()
	select {
	case <-done:
	case <-time.After(3 * time.Second):
		p.cmd.Process.Kill()
		<-done
	}
}

// TypeInfo is one registered Go type as the driver reports it.
type TypeInfo struct {
	Key, Pkg, Go, IDL string
	Methods           map[string]bool
	Fields            []FieldInfo
}

type FieldInfo struct {
	Go, Name, Req, GoType string
	ID                    int
}

// Schema asks the driver what it sees.
func (p *Proc) Schema() ([]TypeInfo, error) {
	resp, err := p.Call(map[string]interface{}{"op": "schema"})
	if err != nil {
		return nil, err
	}
	var out []TypeInfo
	ts, _ := resp["types"].([]interface{})
	for _, t := range ts {
		o := t.(map[string]interface{})
		ti := TypeInfo{Key: str(o["key"]), Pkg: str(o["pkg"]), Go: str(o["go"]), IDL: str(o["idl"]), Methods: map[string]bool{}}
		if ms, ok := o["methods"].([]interface{}); ok {
			for _, x := range ms {
				ti.Methods[str(x)] = true
			}
		}
		if fs, ok := o["fields"].([]interface{}); ok {
			for _, x := range fs {
				fo := x.(map[string]interface{})
				id, _ := fo["id"].(float64)
				ti.Fields = append(ti.Fields, FieldInfo{Go: str(fo["go"]), Name: str(fo["name"]), Req: str(fo["req"]), GoType: str(fo["gotype"]), ID: int(id)})
			}
		}
		out = append(out, ti)
	}
	return out, nil
}

func str(x interface{}) string {
	s, _ := x.(string)
	return s
}
