package c15

// "Each generated Go type maps to its own descriptor and back."  Generated
// code registers a file with thrift_reflection.BuildFileDescriptor(bytes, Go
// types, package path).  The registry explicitly tolerates the same IDL file
// being registered again with identical content (the same IDL generated into
// two package trees that end up in one binary); both sets of Go types must
// then keep mapping to descriptors of their own tree.  This half drives the
// registry directly: the descriptor bytes come from the real front end, and two
// pools of distinct Go types stand in for the two trees.

import (
	"fmt"
	"reflect"
	"sync/atomic"
	"testing"

	tr "github.com/cloudwego/thriftgo/thrift_reflection"
	"pgregory.net/rapid"

	"verif/internal/idl"
	"verif/internal/vt"
)

type treesCase struct {
	Main  string            `json:"main"`
	Files map[string]string `json:"files"`
	Trees int               `json:"trees"` // how often the file is registered (2 or 3)
}

var treesSeq int64

func judgeTrees(c treesCase) error {
	// a path of its own in the process-wide registry
	main := fmt.Sprintf("twotrees_%d_%s", atomic.AddInt64(&treesSeq, 1), c.Main)
	ast, err := analyse(main, map[string]string{main: c.Files[c.Main]})
	if err != nil {
		return nil // not an accepted program
	}
	var bytes []byte
	var fd0 *tr.FileDescriptor
	if err := guard("GetFileDescriptor/Marshal", func() error {
		fd0 = tr.GetFileDescriptor(ast) // what the Go backend embeds in *-reflection.go
		var e error
		bytes, e = fd0.Marshal()
		return e
	}); err != nil {
		return fmt.Errorf("harness: %v", err)
	}
	n := len(fd0.Structs) + len(fd0.Unions) + len(fd0.Exceptions) + len(fd0.Enums) + len(fd0.Typedefs)
	if n == 0 || n > 64 {
		return nil
	}
	pools := [][]interface{}{poolA, poolB, poolA} // a third registration re-uses the first tree's types
	var fds []*tr.FileDescriptor
	for t := 0; t < c.Trees; t++ {
		var fd *tr.FileDescriptor
		if err := guard("BuildFileDescriptor", func() error {
			fd = tr.BuildFileDescriptor(&tr.FileDescriptorBuilder{Bytes: bytes, GoTypes: pools[t][:n], GoPackagePath: fmt.Sprintf("tree%d/pkg", t)})
			return nil
		}); err != nil {
			return fmt.Errorf("registration %d of the same file (identical content): %v", t+1, err)
		}
		if fd == nil {
			return fmt.Errorf("registration %d: BuildFileDescriptor returned nil", t+1)
		}
		fds = append(fds, fd)
	}
	typeOf := func(x interface{}) reflect.Type { return reflect.TypeOf(x).Elem() }
	for t := 0; t < c.Trees && t < 2; t++ { // the first two trees have types of their own
		fd := fds[t]
		if c.Trees == 3 && t == 0 {
			continue // its Go types were registered again for the third descriptor: the later registration owns them
		}
		pool := pools[t]
		i := 0
		check := func(kind, name string, got reflect.Type, back interface{}, backType reflect.Type) error {
			want := typeOf(pool[i])
			if got != want {
				return fmt.Errorf("tree %d: %s %s: descriptor.GetGoType() = %v, want the type this tree registered for it (%v)", t, kind, name, got, want)
			}
			if back == nil || reflect.ValueOf(back).IsNil() {
				return fmt.Errorf("tree %d: %s %s: no descriptor is found by its Go type %v", t, kind, name, want)
			}
			if backType != want {
				return fmt.Errorf("tree %d: %s %s: the descriptor found by Go type %v says its Go type is %v", t, kind, name, want, backType)
			}
			return nil
		}
		sl := append(append(append([]*tr.StructDescriptor{}, fd.Structs...), fd.Unions...), fd.Exceptions...)
		for _, s := range sl {
			b := tr.GetStructDescriptorByGoType(pool[i])
			var bt reflect.Type
			if b != nil {
				bt = b.GetGoType()
				if b.GetName() != s.GetName() {
					return fmt.Errorf("tree %d: Go type of %s maps to the descriptor of %s", t, s.GetName(), b.GetName())
				}
			}
			if err := check("struct-like", s.GetName(), s.GetGoType(), b, bt); err != nil {
				return err
			}
			i++
		}
		for _, e := range fd.Enums {
			b := tr.GetEnumDescriptorByGoType(pool[i])
			var bt reflect.Type
			if b != nil {
				bt = b.GetGoType()
			}
			if err := check("enum", e.GetName(), e.GetGoType(), b, bt); err != nil {
				return err
			}
			i++
		}
		for _, d := range fd.Typedefs {
			b := tr.GetTypedefDescriptorByGoType(pool[i])
			var bt reflect.Type
			if b != nil {
				bt = b.GetGoType()
			}
			if err := check("typedef", d.GetAlias(), d.GetGoType(), b, bt); err != nil {
				return err
			}
			i++
		}
	}
	return nil
}

func TestTwoTrees(t *testing.T) {
	rapid.Check(t, func(rt *rapid.T) {
		cfg := idl.GoSafe()
		cfg.MaxFiles = 1
		cfg.MaxDefs = 4
		cfg.NastyLits = false
		cfg.WideStructs = false
		p := idl.Gen(rt, cfg)
		c := treesCase{Main: p.Files[0].Path, Files: p.Texts(nil), Trees: 2}
		if rapid.IntRange(0, 3).Draw(rt, "third") == 0 {
			c.Trees = 3
		}
		vt.Eval()
		vt.Class("two_trees_cases")
		vt.ClassIf(c.Trees == 3, "two_trees:third_registration")
		vt.Nontrivial("trees" + fmt.Sprint(c.Trees) + c.Files[c.Main])
		if err := judgeTrees(c); err != nil {
			if len(err.Error()) > 8 && err.Error()[:8] == "harness:" {
				rt.Fatalf("%v", err)
			}
			vt.Fail(rt, prop, "twotrees", c, "%v", err)
		}
	})
}
